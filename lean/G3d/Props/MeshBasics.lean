import G3d.Model.Mesh
/-! Small structural facts about the triangulation model (core Lean only): sanity lemmas that also show the
    definitions unfold well. -/
namespace G3d
open Num
set_option linter.unusedSectionVars false
variable {α : Type} [Num α]

namespace Mesh

/-- `invalidate` never changes the number of slots -/
theorem invalidate_size (i : Nat) (m : Mesh α) : ((invalidate i m).1).triangles.size = m.triangles.size := by
  unfold invalidate
  by_cases h : i < m.triangles.size <;> simp [h]

/-- `invalidate` on an existing slot is `Ok` and decrements the counter modulo 2^64 -/
theorem invalidate_ok (i : Nat) (m : Mesh α) (h : i < m.triangles.size) :
    (invalidate i m).2 = .ok () ∧ (invalidate i m).1.nValid = usizeDec m.nValid := by
  unfold invalidate
  simp [h]

/-- the counter wraps: invalidating when `n_valid_triangles == 0` gives `usize::MAX` -/
theorem usizeDec_zero : usizeDec 0 = 18446744073709551615 := by decide

/-- an out-of-range `invalidate` is an `Err` and leaves the state alone -/
theorem invalidate_err (i : Nat) (m : Mesh α) (h : ¬ i < m.triangles.size) :
    invalidate i m = (m, .err "triangulation3d.rs:invalidate:out-of-bounds") := by
  unfold invalidate
  simp [h]

/-- `mark_as_neighbours(i, e, i)` is an `Err` that leaves the state alone -/
theorem markAsNeighbours_self (i : Nat) (e : Edge) (m : Mesh α) :
    markAsNeighbours i e i m = (m, .err "triangulation3d.rs:mark_as_neighbours:own-neighbour") := by
  unfold markAsNeighbours
  simp [MeshM.err]

/-- `split_edge` / `split_triangle` / `flip_diagonal` on a missing slot panic (slice index) -/
theorem splitTriangle_oob (i : Nat) (p : V3 α) (m : Mesh α) (h : m.triangles.size ≤ i) :
    (splitTriangle i p m).2 = .panic "triangulation3d.rs:split_triangle:index" := by
  have : m.triangles[i]? = none := by simp [h]
  simp [splitTriangle, tgetM, tget, this, bind, MeshM.bind]

end Mesh
end G3d
