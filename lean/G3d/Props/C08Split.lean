import G3d.Props.C01
/-!
# C08 / C01 — what the refinement steps do to the set of live triangles (model of `triangulation3d.rs`)

`vgeom m` lists, slot by slot, the corners of the live (valid) triangles of a mesh.  Generic in the number type:

* `KeepsV`: neighbour links and constraint flags (`mark_as_neighbours`, `constrain`) never change it;
* `invalidate_vgeom`: `invalidate(i)` blanks slot `i`;
* `push_vgeom`: an `Ok` `push(a, b, c, _)` adds exactly the live triangle `(a, b, c)`, either in a new slot at the end or in a slot
  that was blank (`Added`) — never over a live triangle;
* `splitTriangle_vgeom`: an `Ok` `split_triangle(i, p)` blanks the live slot `i = (a, b, c)` and adds `(c, a, p)`, `(a, b, p)`,
  `(b, c, p)` — nothing else changes.

Over ℝ (`vsum` = summed vector area of the live triangles): `splitTriangle_area` — **`split_triangle` keeps the summed vector
area of the live triangles, for any point `p`**.
-/
namespace G3d.C08S
open G3d Num Mesh MeshM

set_option linter.unusedSectionVars false
variable {α : Type} [Num α]

/-- corners of a slot if it is live -/
def slotV (t : TriPiece α) : Option (V3 α × V3 α × V3 α) :=
  if t.valid then some (t.triangle.a, t.triangle.b, t.triangle.c) else none

/-- the live triangles of the mesh, slot by slot -/
def vgeom (m : Mesh α) : List (Option (V3 α × V3 α × V3 α)) := m.triangles.toList.map slotV

theorem vgeom_getElem? (m : Mesh α) (i : Nat) : (vgeom m)[i]? = (m.triangles[i]?).map slotV := by
  simp [vgeom]

theorem vgeom_length (m : Mesh α) : (vgeom m).length = m.triangles.size := by simp [vgeom]

/-- a `&mut self` step that never changes which triangles are live nor their corners -/
def KeepsV {β : Type} (x : MeshM α β) : Prop := ∀ m, vgeom (x m).1 = vgeom m

theorem keepsV_pure {β : Type} (b : β) : KeepsV (MeshM.pure b : MeshM α β) := fun _ => rfl
theorem keepsV_ofRes {β : Type} (r : Res β) : KeepsV (ofRes r : MeshM α β) := fun _ => rfl
theorem keepsV_readR {β : Type} (f : Mesh α → Res β) : KeepsV (readR f) := fun _ => rfl
theorem keepsV_err {β : Type} (k : String) : KeepsV (MeshM.err k : MeshM α β) := fun _ => rfl
theorem keepsV_panic {β : Type} (k : String) : KeepsV (MeshM.panic k : MeshM α β) := fun _ => rfl
theorem keepsV_tgetM (i : Nat) (s : String) : KeepsV (tgetM i s : MeshM α (TriPiece α)) := fun _ => rfl

theorem keepsV_bind {β γ : Type} (x : MeshM α β) (f : β → MeshM α γ) (hx : KeepsV x) (hf : ∀ b, KeepsV (f b)) :
    KeepsV (x >>= f) := by
  intro m
  change vgeom (MeshM.bind x f m).1 = _
  unfold MeshM.bind
  have h1 := hx m
  cases hxm : x m with
  | mk m1 r =>
    rw [hxm] at h1
    cases r with
    | ok b => simp only []; rw [hf b m1]; exact h1
    | err e => exact h1
    | panic q => exact h1

theorem keepsV_apply {β : Type} (x : MeshM α β) (hx : KeepsV x) (m m' : Mesh α) (r : Res β) (h : x m = (m', r)) :
    vgeom m' = vgeom m := by
  have := hx m
  rw [h] at this
  exact this

theorem keepsV_tmodifyM (i : Nat) (f : TriPiece α → TriPiece α) (s : String) (hf : ∀ t, slotV (f t) = slotV t) :
    KeepsV (tmodifyM i f s) := by
  intro m
  unfold tmodifyM
  split
  · apply List.ext_getElem?
    intro k
    simp only [vgeom_getElem?, Array.getElem?_modify]
    by_cases hk : i = k
    · subst hk; cases m.triangles[i]? <;> simp [hf]
    · simp [hk]
  · rfl

theorem slotV_setNeighbour (t : TriPiece α) (e : Edge) (i : Nat) : slotV (t.setNeighbour e i) = slotV t := by
  cases e <;> rfl

theorem slotV_constrain (t : TriPiece α) (e : Edge) : slotV (t.constrain e) = slotV t := by
  cases e <;> rfl

theorem keepsV_markAsNeighbours (i1 : Nat) (e : Edge) (i2 : Nat) : KeepsV (markAsNeighbours i1 e i2 : MeshM α Unit) := by
  unfold markAsNeighbours
  split
  · exact keepsV_err _
  · refine keepsV_bind _ _ (keepsV_tgetM _ _) (fun t1 => ?_)
    split
    · exact keepsV_err _
    · refine keepsV_bind _ _ (keepsV_ofRes _) (fun seg1 => ?_)
      refine keepsV_bind _ _ (keepsV_tgetM _ _) (fun t2 => ?_)
      split
      · exact keepsV_err _
      · refine keepsV_bind _ _ (keepsV_ofRes _) (fun e2 => ?_)
        refine keepsV_bind _ _ (keepsV_ofRes _) (fun e2' => ?_)
        refine keepsV_bind _ _ (keepsV_tmodifyM _ _ _ (fun t => slotV_setNeighbour t _ _)) (fun _ => ?_)
        exact keepsV_tmodifyM _ _ _ (fun t => slotV_setNeighbour t _ _)

theorem keepsV_optMark (o : Option Nat) (i : Nat) (e : Edge) :
    KeepsV (match o with
      | some ni => markAsNeighbours i e ni
      | none => (MeshM.pure () : MeshM α Unit)) := by
  cases o with
  | none => exact keepsV_pure _
  | some ni => exact keepsV_markAsNeighbours _ _ _

theorem keepsV_optConstrain (c : Bool) (i : Nat) (e : Edge) (s : String) :
    KeepsV (if c then tmodifyM i (fun t => t.constrain e) s else (MeshM.pure () : MeshM α Unit)) := by
  split
  · exact keepsV_tmodifyM _ _ _ (fun t => slotV_constrain t _)
  · exact keepsV_pure _

/-! ## `invalidate` -/

theorem slotV_invalidate (t : TriPiece α) : slotV t.invalidate = none := by
  simp [slotV, TriPiece.invalidate]

/-- `invalidate(i)` on an existing slot blanks exactly that slot -/
theorem invalidate_vgeom (i : Nat) (m m' : Mesh α) (h : invalidate i m = (m', .ok ())) :
    i < m.triangles.size ∧ vgeom m' = (vgeom m).set i none := by
  unfold invalidate at h
  simp only [] at h
  split at h
  · rename_i hi
    refine ⟨hi, ?_⟩
    injection h with h1 _
    subst h1
    apply List.ext_getElem?
    intro k
    simp only [vgeom_getElem?, Array.getElem?_modify, List.getElem?_set, vgeom_length]
    by_cases hk : i = k
    · subst hk
      have : m.triangles[i]? = some m.triangles[i] := by simp [hi]
      simp [hi, slotV_invalidate]
    · simp [hk]
  · injection h with _ h2
    cases h2

/-! ## `push` -/

/-- one live triangle `t` more: in a new last slot, or in a slot that was blank -/
def Added {τ : Type} (l l' : List (Option τ)) (t : τ) : Prop :=
  l' = l ++ [some t] ∨ ∃ n, l[n]? = some none ∧ l' = l.set n (some t)

theorem getFirstInvalidLoop_some (m : Mesh α) : ∀ (fuel i n : Nat), getFirstInvalidLoop m fuel i = .ok (some n) →
    ∃ t, m.triangles[n]? = some t ∧ t.valid = false := by
  intro fuel
  induction fuel with
  | zero => intro i n h; simp [getFirstInvalidLoop] at h
  | succ f ih =>
    intro i n h
    unfold getFirstInvalidLoop at h
    unfold tget at h
    cases ht : m.triangles[i]? with
    | none => rw [ht] at h; cases h
    | some t =>
      rw [ht] at h
      simp only [Bind.bind, Res.bind] at h
      split at h
      · rename_i hv
        injection h with h
        injection h with h
        subst h
        exact ⟨t, ht, by simpa using hv⟩
      · exact ih _ _ h

theorem getFirstInvalid_some (m : Mesh α) (start n : Nat) (h : m.getFirstInvalid start = .ok (some n)) :
    ∃ t, m.triangles[n]? = some t ∧ t.valid = false := by
  unfold getFirstInvalid at h
  simp only [] at h
  split at h
  · exact getFirstInvalidLoop_some m _ _ _ h
  · cases h

theorem slotV_new (a b c : V3 α) (i : Nat) (t : TriPiece α) (h : TriPiece.new a b c i = .ok t) : slotV t = some (a, b, c) := by
  obtain ⟨ha, hb, hc⟩ := C01T.tripiece_new_abc a b c i t h
  have hv : t.valid = true := by
    unfold TriPiece.new at h
    cases ht : Triangle.new a b c with
    | err e => rw [ht] at h; cases h
    | panic e => rw [ht] at h; cases h
    | ok tri =>
      rw [ht] at h
      simp only [Bind.bind, Res.bind] at h
      cases har : tri.aspectRatioR with
      | err e => rw [har] at h; cases h
      | panic e => rw [har] at h; cases h
      | ok ar => rw [har] at h; injection h with h; subst h; rfl
  simp [slotV, hv, ha, hb, hc]

/-- **an `Ok` `push(a, b, c, last_added)` adds exactly the live triangle `(a, b, c)` and never overwrites a live one** -/
theorem push_vgeom (a b c : V3 α) (la : Nat) (m m' : Mesh α) (n : Nat) (h : Mesh.push a b c la m = (m', .ok n)) :
    Added (vgeom m) (vgeom m') (a, b, c) := by
  unfold Mesh.push at h
  simp only [Bind.bind, MeshM.bind, readR] at h
  cases hfi : m.getFirstInvalid la with
  | err e => rw [hfi] at h; simp at h
  | panic e => rw [hfi] at h; simp at h
  | ok fi =>
    rw [hfi] at h
    simp only [] at h
    cases fi with
    | none =>
      simp only [] at h
      cases ht : TriPiece.new a b c m.triangles.size with
      | err e => rw [ht] at h; simp [MeshM.err] at h
      | panic e => rw [ht] at h; simp [MeshM.panic] at h
      | ok t =>
        rw [ht] at h
        simp only [if_true, Prod.mk.injEq] at h
        obtain ⟨h1, _⟩ := h
        subst h1
        left
        simp [vgeom, slotV_new a b c _ t ht]
    | some k =>
      simp only [] at h
      obtain ⟨told, htold, hinv⟩ := getFirstInvalid_some m la k hfi
      have hk : k < m.triangles.size := by
        have := (Array.getElem?_eq_some_iff.mp htold).1
        exact this
      cases ht : TriPiece.new a b c k with
      | err e => rw [ht] at h; simp [MeshM.err] at h
      | panic e => rw [ht] at h; simp [MeshM.panic] at h
      | ok t =>
        rw [ht] at h
        simp only [Bool.false_eq_true, if_false, hk, if_true, Prod.mk.injEq] at h
        obtain ⟨h1, _⟩ := h
        subst h1
        right
        refine ⟨k, ?_, ?_⟩
        · rw [vgeom_getElem?, htold]; simp [slotV, hinv]
        · apply List.ext_getElem?
          intro j
          simp only [vgeom_getElem?, List.getElem?_set, vgeom_length]
          by_cases hj : k = j
          · subst hj
            simp [hk, slotV_new a b c _ t ht, Array.set!]
          · simp [hj, Array.set!, Array.getElem?_setIfInBounds_ne hj]

/-! ## `split_triangle` -/

theorem ofRes_ok_inv {β : Type} (r : Res β) (m m1 : Mesh α) (b : β) (h : (ofRes r : MeshM α β) m = (m1, .ok b)) :
    m1 = m ∧ r = .ok b := by
  simp only [ofRes, Prod.mk.injEq] at h
  exact ⟨h.1.symm, h.2⟩

/-- **an `Ok` `split_triangle(i, p)`**: slot `i` was live with corners `(a, b, c)`; it is blanked and exactly the three live
    triangles `(c, a, p)`, `(a, b, p)`, `(b, c, p)` are added; no other slot changes -/
theorem splitTriangle_vgeom (i : Nat) (p : V3 α) (m m' : Mesh α) (h : splitTriangle i p m = (m', .ok ())) :
    ∃ a b c l1 l2 l3, (vgeom m)[i]? = some (some (a, b, c)) ∧
      Added ((vgeom m).set i none) l1 (c, a, p) ∧ Added l1 l2 (a, b, p) ∧ Added l2 l3 (b, c, p) ∧ vgeom m' = l3 := by
  unfold splitTriangle at h
  obtain ⟨tp, m0, htp, h1⟩ := C01T.mbind_ok_inv _ _ _ _ _ h
  clear h
  obtain ⟨hm0, hget⟩ := C18.tgetM_ok_inv _ _ _ _ _ htp
  subst hm0
  split at h1
  · simp [MeshM.err] at h1
  · rename_i hvalid
    obtain ⟨e1, m1, he1, h2⟩ := C01T.mbind_ok_inv _ _ _ _ _ h1
    clear h1
    obtain ⟨hm1, _⟩ := ofRes_ok_inv _ _ _ _ he1
    subst hm1
    obtain ⟨e2, m2, he2, h3⟩ := C01T.mbind_ok_inv _ _ _ _ _ h2
    clear h2
    obtain ⟨hm2, _⟩ := ofRes_ok_inv _ _ _ _ he2
    subst hm2
    obtain ⟨e3, m3, he3, h4⟩ := C01T.mbind_ok_inv _ _ _ _ _ h3
    clear h3
    obtain ⟨hm3, _⟩ := ofRes_ok_inv _ _ _ _ he3
    subst hm3
    obtain ⟨u, m4, hinv, h5⟩ := C01T.mbind_ok_inv _ _ _ _ _ h4
    clear h4
    obtain ⟨hi, hv4⟩ := invalidate_vgeom _ _ _ hinv
    obtain ⟨capI, m5, hp1, h6⟩ := C01T.mbind_ok_inv _ _ _ _ _ h5
    clear h5
    obtain ⟨abpI, m6, hp2, h7⟩ := C01T.mbind_ok_inv _ _ _ _ _ h6
    clear h6
    obtain ⟨bcpI, m7, hp3, h8⟩ := C01T.mbind_ok_inv _ _ _ _ _ h7
    clear h7
    have hk7 : vgeom m' = vgeom m7 := by
      refine keepsV_apply _ ?_ _ _ _ h8
      refine keepsV_bind _ _ (keepsV_markAsNeighbours _ _ _) (fun _ => ?_)
      refine keepsV_bind _ _ (keepsV_markAsNeighbours _ _ _) (fun _ => ?_)
      refine keepsV_bind _ _ (keepsV_markAsNeighbours _ _ _) (fun _ => ?_)
      refine keepsV_bind _ _ (keepsV_optConstrain _ _ _ _) (fun _ => ?_)
      refine keepsV_bind _ _ (keepsV_optMark _ _ _) (fun _ => ?_)
      refine keepsV_bind _ _ (keepsV_optConstrain _ _ _ _) (fun _ => ?_)
      refine keepsV_bind _ _ (keepsV_optMark _ _ _) (fun _ => ?_)
      refine keepsV_bind _ _ (keepsV_optConstrain _ _ _ _) (fun _ => ?_)
      exact keepsV_optMark _ _ _
    have a1 := push_vgeom _ _ _ _ _ _ _ hp1
    have a2 := push_vgeom _ _ _ _ _ _ _ hp2
    have a3 := push_vgeom _ _ _ _ _ _ _ hp3
    rw [hv4] at a1
    refine ⟨tp.triangle.a, tp.triangle.b, tp.triangle.c, vgeom m5, vgeom m6, vgeom m7, ?_, a1, a2, a3, hk7⟩
    rw [vgeom_getElem?, hget]
    have : tp.valid = true := by simpa using hvalid
    simp [slotV, this]

/-! ## over ℝ: the summed vector area of the live triangles -/

section Real
open Shoelace C01
noncomputable section

/-- twice the summed vector area of the live triangles -/
def vsum : List (Option (V3 ℝ × V3 ℝ × V3 ℝ)) → V3 ℝ
  | [] => ⟨0, 0, 0⟩
  | none :: l => vsum l
  | some (a, b, c) :: l => cyc [a, b, c] + vsum l

theorem vsum_append_single (l : List (Option (V3 ℝ × V3 ℝ × V3 ℝ))) (a b c : V3 ℝ) :
    vsum (l ++ [some (a, b, c)]) = vsum l + cyc [a, b, c] := by
  induction l with
  | nil => simp [vsum]; v3_ring
  | cons x l ih =>
    cases x with
    | none => simpa [vsum] using ih
    | some t => obtain ⟨x, y, z⟩ := t; simp only [List.cons_append, vsum, ih]; v3_ring

theorem vsum_set_some (l : List (Option (V3 ℝ × V3 ℝ × V3 ℝ))) (n : Nat) (a b c : V3 ℝ) (h : l[n]? = some none) :
    vsum (l.set n (some (a, b, c))) = vsum l + cyc [a, b, c] := by
  induction l generalizing n with
  | nil => simp at h
  | cons x l ih =>
    cases n with
    | zero =>
      simp only [List.getElem?_cons_zero, Option.some.injEq] at h
      subst h
      simp [vsum]; v3_ring
    | succ k =>
      simp only [List.getElem?_cons_succ] at h
      cases x with
      | none => simpa [vsum] using ih k h
      | some t => obtain ⟨x, y, z⟩ := t; simp only [List.set_cons_succ, vsum, ih k h]; v3_ring

theorem vsum_set_none (l : List (Option (V3 ℝ × V3 ℝ × V3 ℝ))) (n : Nat) (a b c : V3 ℝ) (h : l[n]? = some (some (a, b, c))) :
    vsum (l.set n none) + cyc [a, b, c] = vsum l := by
  induction l generalizing n with
  | nil => simp at h
  | cons x l ih =>
    cases n with
    | zero =>
      simp only [List.getElem?_cons_zero, Option.some.injEq] at h
      subst h
      simp [vsum]; v3_ring
    | succ k =>
      simp only [List.getElem?_cons_succ] at h
      cases x with
      | none => simpa [vsum] using ih k h
      | some t =>
        obtain ⟨x, y, z⟩ := t
        simp only [List.set_cons_succ, vsum]
        rw [← ih k h]; v3_ring

/-- a triangle added is its vector area added -/
theorem vsum_added (l l' : List (Option (V3 ℝ × V3 ℝ × V3 ℝ))) (a b c : V3 ℝ) (h : Added l l' (a, b, c)) :
    vsum l' = vsum l + cyc [a, b, c] := by
  rcases h with h | ⟨n, hn, h⟩
  · rw [h, vsum_append_single]
  · rw [h, vsum_set_some l n a b c hn]

/-- **`split_triangle(i, p)` keeps the summed vector area of the live triangles — for any point `p`** (exact semantics) -/
theorem splitTriangle_area (i : Nat) (p : V3 ℝ) (m m' : Mesh ℝ) (h : splitTriangle i p m = (m', .ok ())) :
    vsum (vgeom m') = vsum (vgeom m) := by
  obtain ⟨a, b, c, l1, l2, l3, hi, a1, a2, a3, hm'⟩ := splitTriangle_vgeom i p m m' h
  rw [hm', vsum_added _ _ _ _ _ a3, vsum_added _ _ _ _ _ a2, vsum_added _ _ _ _ _ a1, ← vsum_set_none _ i a b c hi,
    ← split_triangle_area a b c p]
  v3_ring

end
end Real

end G3d.C08S
