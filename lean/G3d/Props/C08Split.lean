import G3d.Props.C01
/-!
# C08 / C01 — what the refinement steps do to the set of live triangles (model of `triangulation3d.rs`)

`vgeom m` lists, slot by slot, the corners of the live (valid) triangles of a mesh.  Generic in the number type:

* `KeepsV`: neighbour links and constraint flags (`mark_as_neighbours`, `constrain`) never change it;
* `invalidate_vgeom`: `invalidate(i)` blanks slot `i`;
* `push_vgeom`: an `Ok` `push(a, b, c, _)` adds exactly the live triangle `(a, b, c)`, either in a new slot at the end or in a slot
  that was blank (`Added`) — never over a live triangle;
* `splitTriangle_vgeom`: an `Ok` `split_triangle(i, p)` blanks the live slot `i = (a, b, c)` and adds `(c, a, p)`, `(a, b, p)`,
  `(b, c, p)` — nothing else changes.

* `processHemisphere_vgeom`: each side of an `Ok` `split_edge` blanks its slot and adds `(A, p, C)`, `(p, B, C)`;
* `flipDiagonal_vgeom`: an `Ok` `flip_diagonal` blanks the two live slots and adds `(A, O, C)`, `(C, O, B)`.

Over ℝ (`vsum` = summed vector area of the live triangles): `splitTriangle_area` — **`split_triangle` keeps the summed vector
area of the live triangles, for any point `p`**; `processHemisphere_area` — each side of `split_edge` changes it by exactly
`−(A, B, p)` (zero for `p` on the line `AB`: `cyc_on_line`), for slots whose corners are pairwise distinct as `Triangle3D::new`
guarantees; `flipDiagonal_area` — `flip_diagonal` keeps it whenever the neighbour's corners are `B, A, O` in some rotation.
-/
namespace G3d.C08S
open G3d Num Mesh MeshM

set_option linter.unusedSectionVars false
variable {α : Type} [Num α]

/-- corners of a slot if it is live -/
def slotV (t : TriPiece α) : Option (V3 α × V3 α × V3 α) :=
  if t.valid then some (t.triangle.a, t.triangle.b, t.triangle.c) else none

/-- the live triangles of the mesh, slot by slot -/
def vgeom (m : Mesh α) : List (Option (V3 α × V3 α × V3 α)) := m.triangles.toList.map slotV

theorem vgeom_getElem? (m : Mesh α) (i : Nat) : (vgeom m)[i]? = (m.triangles[i]?).map slotV := by
  simp [vgeom]

theorem vgeom_length (m : Mesh α) : (vgeom m).length = m.triangles.size := by simp [vgeom]

/-- a `&mut self` step that never changes which triangles are live nor their corners -/
def KeepsV {β : Type} (x : MeshM α β) : Prop := ∀ m, vgeom (x m).1 = vgeom m

theorem keepsV_pure {β : Type} (b : β) : KeepsV (MeshM.pure b : MeshM α β) := fun _ => rfl
theorem keepsV_ofRes {β : Type} (r : Res β) : KeepsV (ofRes r : MeshM α β) := fun _ => rfl
theorem keepsV_readR {β : Type} (f : Mesh α → Res β) : KeepsV (readR f) := fun _ => rfl
theorem keepsV_err {β : Type} (k : String) : KeepsV (MeshM.err k : MeshM α β) := fun _ => rfl
theorem keepsV_panic {β : Type} (k : String) : KeepsV (MeshM.panic k : MeshM α β) := fun _ => rfl
theorem keepsV_tgetM (i : Nat) (s : String) : KeepsV (tgetM i s : MeshM α (TriPiece α)) := fun _ => rfl

theorem keepsV_bind {β γ : Type} (x : MeshM α β) (f : β → MeshM α γ) (hx : KeepsV x) (hf : ∀ b, KeepsV (f b)) :
    KeepsV (x >>= f) := by
  intro m
  change vgeom (MeshM.bind x f m).1 = _
  unfold MeshM.bind
  have h1 := hx m
  cases hxm : x m with
  | mk m1 r =>
    rw [hxm] at h1
    cases r with
    | ok b => simp only []; rw [hf b m1]; exact h1
    | err e => exact h1
    | panic q => exact h1

theorem keepsV_apply {β : Type} (x : MeshM α β) (hx : KeepsV x) (m m' : Mesh α) (r : Res β) (h : x m = (m', r)) :
    vgeom m' = vgeom m := by
  have := hx m
  rw [h] at this
  exact this

theorem keepsV_tmodifyM (i : Nat) (f : TriPiece α → TriPiece α) (s : String) (hf : ∀ t, slotV (f t) = slotV t) :
    KeepsV (tmodifyM i f s) := by
  intro m
  unfold tmodifyM
  split
  · apply List.ext_getElem?
    intro k
    simp only [vgeom_getElem?, Array.getElem?_modify]
    by_cases hk : i = k
    · subst hk; cases m.triangles[i]? <;> simp [hf]
    · simp [hk]
  · rfl

theorem slotV_setNeighbour (t : TriPiece α) (e : Edge) (i : Nat) : slotV (t.setNeighbour e i) = slotV t := by
  cases e <;> rfl

theorem slotV_constrain (t : TriPiece α) (e : Edge) : slotV (t.constrain e) = slotV t := by
  cases e <;> rfl

theorem keepsV_markAsNeighbours (i1 : Nat) (e : Edge) (i2 : Nat) : KeepsV (markAsNeighbours i1 e i2 : MeshM α Unit) := by
  unfold markAsNeighbours
  split
  · exact keepsV_err _
  · refine keepsV_bind _ _ (keepsV_tgetM _ _) (fun t1 => ?_)
    split
    · exact keepsV_err _
    · refine keepsV_bind _ _ (keepsV_ofRes _) (fun seg1 => ?_)
      refine keepsV_bind _ _ (keepsV_tgetM _ _) (fun t2 => ?_)
      split
      · exact keepsV_err _
      · refine keepsV_bind _ _ (keepsV_ofRes _) (fun e2 => ?_)
        refine keepsV_bind _ _ (keepsV_ofRes _) (fun e2' => ?_)
        refine keepsV_bind _ _ (keepsV_tmodifyM _ _ _ (fun t => slotV_setNeighbour t _ _)) (fun _ => ?_)
        exact keepsV_tmodifyM _ _ _ (fun t => slotV_setNeighbour t _ _)

theorem keepsV_optMark (o : Option Nat) (i : Nat) (e : Edge) :
    KeepsV (match o with
      | some ni => markAsNeighbours i e ni
      | none => (MeshM.pure () : MeshM α Unit)) := by
  cases o with
  | none => exact keepsV_pure _
  | some ni => exact keepsV_markAsNeighbours _ _ _

theorem keepsV_optConstrain (c : Bool) (i : Nat) (e : Edge) (s : String) :
    KeepsV (if c then tmodifyM i (fun t => t.constrain e) s else (MeshM.pure () : MeshM α Unit)) := by
  split
  · exact keepsV_tmodifyM _ _ _ (fun t => slotV_constrain t _)
  · exact keepsV_pure _

/-! ## `invalidate` -/

theorem slotV_invalidate (t : TriPiece α) : slotV t.invalidate = none := by
  simp [slotV, TriPiece.invalidate]

/-- `invalidate(i)` on an existing slot blanks exactly that slot -/
theorem invalidate_vgeom (i : Nat) (m m' : Mesh α) (h : invalidate i m = (m', .ok ())) :
    i < m.triangles.size ∧ vgeom m' = (vgeom m).set i none := by
  unfold invalidate at h
  simp only [] at h
  split at h
  · rename_i hi
    refine ⟨hi, ?_⟩
    injection h with h1 _
    subst h1
    apply List.ext_getElem?
    intro k
    simp only [vgeom_getElem?, Array.getElem?_modify, List.getElem?_set, vgeom_length]
    by_cases hk : i = k
    · subst hk
      have : m.triangles[i]? = some m.triangles[i] := by simp [hi]
      simp [hi, slotV_invalidate]
    · simp [hk]
  · injection h with _ h2
    cases h2

/-! ## `push` -/

/-- one live triangle `t` more: in a new last slot, or in a slot that was blank -/
def Added {τ : Type} (l l' : List (Option τ)) (t : τ) : Prop :=
  l' = l ++ [some t] ∨ ∃ n, l[n]? = some none ∧ l' = l.set n (some t)

theorem getFirstInvalidLoop_some (m : Mesh α) : ∀ (fuel i n : Nat), getFirstInvalidLoop m fuel i = .ok (some n) →
    ∃ t, m.triangles[n]? = some t ∧ t.valid = false := by
  intro fuel
  induction fuel with
  | zero => intro i n h; simp [getFirstInvalidLoop] at h
  | succ f ih =>
    intro i n h
    unfold getFirstInvalidLoop at h
    unfold tget at h
    cases ht : m.triangles[i]? with
    | none => rw [ht] at h; cases h
    | some t =>
      rw [ht] at h
      simp only [Bind.bind, Res.bind] at h
      split at h
      · rename_i hv
        injection h with h
        injection h with h
        subst h
        exact ⟨t, ht, by simpa using hv⟩
      · exact ih _ _ h

theorem getFirstInvalid_some (m : Mesh α) (start n : Nat) (h : m.getFirstInvalid start = .ok (some n)) :
    ∃ t, m.triangles[n]? = some t ∧ t.valid = false := by
  unfold getFirstInvalid at h
  simp only [] at h
  split at h
  · exact getFirstInvalidLoop_some m _ _ _ h
  · cases h

theorem slotV_new (a b c : V3 α) (i : Nat) (t : TriPiece α) (h : TriPiece.new a b c i = .ok t) : slotV t = some (a, b, c) := by
  obtain ⟨ha, hb, hc⟩ := C01T.tripiece_new_abc a b c i t h
  have hv : t.valid = true := by
    unfold TriPiece.new at h
    cases ht : Triangle.new a b c with
    | err e => rw [ht] at h; cases h
    | panic e => rw [ht] at h; cases h
    | ok tri =>
      rw [ht] at h
      simp only [Bind.bind, Res.bind] at h
      cases har : tri.aspectRatioR with
      | err e => rw [har] at h; cases h
      | panic e => rw [har] at h; cases h
      | ok ar => rw [har] at h; injection h with h; subst h; rfl
  simp [slotV, hv, ha, hb, hc]

/-- **an `Ok` `push(a, b, c, last_added)` adds exactly the live triangle `(a, b, c)` and never overwrites a live one** -/
theorem push_vgeom (a b c : V3 α) (la : Nat) (m m' : Mesh α) (n : Nat) (h : Mesh.push a b c la m = (m', .ok n)) :
    Added (vgeom m) (vgeom m') (a, b, c) := by
  unfold Mesh.push at h
  simp only [Bind.bind, MeshM.bind, readR] at h
  cases hfi : m.getFirstInvalid la with
  | err e => rw [hfi] at h; simp at h
  | panic e => rw [hfi] at h; simp at h
  | ok fi =>
    rw [hfi] at h
    simp only [] at h
    cases fi with
    | none =>
      simp only [] at h
      cases ht : TriPiece.new a b c m.triangles.size with
      | err e => rw [ht] at h; simp [MeshM.err] at h
      | panic e => rw [ht] at h; simp [MeshM.panic] at h
      | ok t =>
        rw [ht] at h
        simp only [if_true, Prod.mk.injEq] at h
        obtain ⟨h1, _⟩ := h
        subst h1
        left
        simp [vgeom, slotV_new a b c _ t ht]
    | some k =>
      simp only [] at h
      obtain ⟨told, htold, hinv⟩ := getFirstInvalid_some m la k hfi
      have hk : k < m.triangles.size := by
        have := (Array.getElem?_eq_some_iff.mp htold).1
        exact this
      cases ht : TriPiece.new a b c k with
      | err e => rw [ht] at h; simp [MeshM.err] at h
      | panic e => rw [ht] at h; simp [MeshM.panic] at h
      | ok t =>
        rw [ht] at h
        simp only [Bool.false_eq_true, if_false, hk, if_true, Prod.mk.injEq] at h
        obtain ⟨h1, _⟩ := h
        subst h1
        right
        refine ⟨k, ?_, ?_⟩
        · rw [vgeom_getElem?, htold]; simp [slotV, hinv]
        · apply List.ext_getElem?
          intro j
          simp only [vgeom_getElem?, List.getElem?_set, vgeom_length]
          by_cases hj : k = j
          · subst hj
            simp [hk, slotV_new a b c _ t ht, Array.set!]
          · simp [hj, Array.set!, Array.getElem?_setIfInBounds_ne hj]

/-! ## `split_triangle` -/

theorem ofRes_ok_inv {β : Type} (r : Res β) (m m1 : Mesh α) (b : β) (h : (ofRes r : MeshM α β) m = (m1, .ok b)) :
    m1 = m ∧ r = .ok b := by
  simp only [ofRes, Prod.mk.injEq] at h
  exact ⟨h.1.symm, h.2⟩

/-- **an `Ok` `split_triangle(i, p)`**: slot `i` was live with corners `(a, b, c)`; it is blanked and exactly the three live
    triangles `(c, a, p)`, `(a, b, p)`, `(b, c, p)` are added; no other slot changes -/
theorem splitTriangle_vgeom (i : Nat) (p : V3 α) (m m' : Mesh α) (h : splitTriangle i p m = (m', .ok ())) :
    ∃ a b c l1 l2 l3, (vgeom m)[i]? = some (some (a, b, c)) ∧
      Added ((vgeom m).set i none) l1 (c, a, p) ∧ Added l1 l2 (a, b, p) ∧ Added l2 l3 (b, c, p) ∧ vgeom m' = l3 := by
  unfold splitTriangle at h
  obtain ⟨tp, m0, htp, h1⟩ := C01T.mbind_ok_inv _ _ _ _ _ h
  clear h
  obtain ⟨hm0, hget⟩ := C18.tgetM_ok_inv _ _ _ _ _ htp
  subst hm0
  split at h1
  · simp [MeshM.err] at h1
  · rename_i hvalid
    obtain ⟨e1, m1, he1, h2⟩ := C01T.mbind_ok_inv _ _ _ _ _ h1
    clear h1
    obtain ⟨hm1, _⟩ := ofRes_ok_inv _ _ _ _ he1
    subst hm1
    obtain ⟨e2, m2, he2, h3⟩ := C01T.mbind_ok_inv _ _ _ _ _ h2
    clear h2
    obtain ⟨hm2, _⟩ := ofRes_ok_inv _ _ _ _ he2
    subst hm2
    obtain ⟨e3, m3, he3, h4⟩ := C01T.mbind_ok_inv _ _ _ _ _ h3
    clear h3
    obtain ⟨hm3, _⟩ := ofRes_ok_inv _ _ _ _ he3
    subst hm3
    obtain ⟨u, m4, hinv, h5⟩ := C01T.mbind_ok_inv _ _ _ _ _ h4
    clear h4
    obtain ⟨hi, hv4⟩ := invalidate_vgeom _ _ _ hinv
    obtain ⟨capI, m5, hp1, h6⟩ := C01T.mbind_ok_inv _ _ _ _ _ h5
    clear h5
    obtain ⟨abpI, m6, hp2, h7⟩ := C01T.mbind_ok_inv _ _ _ _ _ h6
    clear h6
    obtain ⟨bcpI, m7, hp3, h8⟩ := C01T.mbind_ok_inv _ _ _ _ _ h7
    clear h7
    have hk7 : vgeom m' = vgeom m7 := by
      refine keepsV_apply _ ?_ _ _ _ h8
      refine keepsV_bind _ _ (keepsV_markAsNeighbours _ _ _) (fun _ => ?_)
      refine keepsV_bind _ _ (keepsV_markAsNeighbours _ _ _) (fun _ => ?_)
      refine keepsV_bind _ _ (keepsV_markAsNeighbours _ _ _) (fun _ => ?_)
      refine keepsV_bind _ _ (keepsV_optConstrain _ _ _ _) (fun _ => ?_)
      refine keepsV_bind _ _ (keepsV_optMark _ _ _) (fun _ => ?_)
      refine keepsV_bind _ _ (keepsV_optConstrain _ _ _ _) (fun _ => ?_)
      refine keepsV_bind _ _ (keepsV_optMark _ _ _) (fun _ => ?_)
      refine keepsV_bind _ _ (keepsV_optConstrain _ _ _ _) (fun _ => ?_)
      exact keepsV_optMark _ _ _
    have a1 := push_vgeom _ _ _ _ _ _ _ hp1
    have a2 := push_vgeom _ _ _ _ _ _ _ hp2
    have a3 := push_vgeom _ _ _ _ _ _ _ hp3
    rw [hv4] at a1
    refine ⟨tp.triangle.a, tp.triangle.b, tp.triangle.c, vgeom m5, vgeom m6, vgeom m7, ?_, a1, a2, a3, hk7⟩
    rw [vgeom_getElem?, hget]
    have : tp.valid = true := by simpa using hvalid
    simp [slotV, this]

/-! ## `split_edge`, one side -/

/-- **an `Ok` `process_hemisphere(segment, p, index)`** (one side of `split_edge`): slot `index` is blanked and exactly the two
    live triangles `(A, p, C)`, `(p, B, C)` are added, where `A → B` is the stored edge of the slot that matches `segment`
    and `C` the vertex `get_opposite_vertex` answers -/
theorem processHemisphere_vgeom (seg : Segment α) (p : V3 α) (index : Nat) (m m' : Mesh α) (r : Nat × Nat)
    (h : processHemisphere seg p index m = (m', .ok r)) :
    ∃ tp k ab C l1 l2, m.triangles[index]? = some tp ∧
      tp.triangle.getEdgeIndexFromSegment seg = some k ∧ tp.triangle.segment k = .ok ab ∧
      getOppositeVertex tp.triangle ab = .ok C ∧
      Added ((vgeom m).set index none) l1 (ab.start, p, C) ∧ Added l1 l2 (p, ab.stop, C) ∧ vgeom m' = l2 := by
  unfold processHemisphere at h
  obtain ⟨tp, m0, htp, h1⟩ := C01T.mbind_ok_inv _ _ _ _ _ h
  clear h
  obtain ⟨hm0, hget⟩ := C18.tgetM_ok_inv _ _ _ _ _ htp
  subst hm0
  obtain ⟨k, m1, hk, h2⟩ := C01T.mbind_ok_inv _ _ _ _ _ h1
  clear h1
  obtain ⟨hm1, hk'⟩ := ofRes_ok_inv _ _ _ _ hk
  subst hm1
  obtain ⟨ab, m2, hab, h3⟩ := C01T.mbind_ok_inv _ _ _ _ _ h2
  clear h2
  obtain ⟨hm2, hab'⟩ := ofRes_ok_inv _ _ _ _ hab
  subst hm2
  obtain ⟨e0, m3, he0, h4⟩ := C01T.mbind_ok_inv _ _ _ _ _ h3
  clear h3
  obtain ⟨hm3, _⟩ := ofRes_ok_inv _ _ _ _ he0
  subst hm3
  obtain ⟨e, m4, he, h5⟩ := C01T.mbind_ok_inv _ _ _ _ _ h4
  clear h4
  obtain ⟨hm4, _⟩ := ofRes_ok_inv _ _ _ _ he
  subst hm4
  obtain ⟨C, m5, hC, h6⟩ := C01T.mbind_ok_inv _ _ _ _ _ h5
  clear h5
  obtain ⟨hm5, hC'⟩ := ofRes_ok_inv _ _ _ _ hC
  subst hm5
  obtain ⟨u, m6, hinv, h7⟩ := C01T.mbind_ok_inv _ _ _ _ _ h6
  clear h6
  obtain ⟨hi, hv6⟩ := invalidate_vgeom _ _ _ hinv
  obtain ⟨tp2, m7, htp2, h8⟩ := C01T.mbind_ok_inv _ _ _ _ _ h7
  clear h7
  obtain ⟨hm7, _⟩ := C18.tgetM_ok_inv _ _ _ _ _ htp2
  subst hm7
  obtain ⟨e1, m8, he1, h9⟩ := C01T.mbind_ok_inv _ _ _ _ _ h8
  clear h8
  obtain ⟨hm8, _⟩ := ofRes_ok_inv _ _ _ _ he1
  subst hm8
  obtain ⟨e2, m9, he2, h10⟩ := C01T.mbind_ok_inv _ _ _ _ _ h9
  clear h9
  obtain ⟨hm9, _⟩ := ofRes_ok_inv _ _ _ _ he2
  subst hm9
  obtain ⟨apcI, m10, hp1, h11⟩ := C01T.mbind_ok_inv _ _ _ _ _ h10
  clear h10
  obtain ⟨pbcI, m11, hp2, h12⟩ := C01T.mbind_ok_inv _ _ _ _ _ h11
  clear h11
  have hk12 : vgeom m' = vgeom m11 := by
    refine keepsV_apply _ ?_ _ _ _ h12
    refine keepsV_bind _ _ (keepsV_optConstrain _ _ _ _) (fun _ => ?_)
    refine keepsV_bind _ _ (keepsV_markAsNeighbours _ _ _) (fun _ => ?_)
    refine keepsV_bind _ _ (keepsV_optMark _ _ _) (fun _ => ?_)
    refine keepsV_bind _ _ (keepsV_optConstrain _ _ _ _) (fun _ => ?_)
    refine keepsV_bind _ _ (keepsV_optConstrain _ _ _ _) (fun _ => ?_)
    refine keepsV_bind _ _ (keepsV_optMark _ _ _) (fun _ => ?_)
    refine keepsV_bind _ _ (keepsV_optConstrain _ _ _ _) (fun _ => ?_)
    exact keepsV_pure _
  have a1 := push_vgeom _ _ _ _ _ _ _ hp1
  have a2 := push_vgeom _ _ _ _ _ _ _ hp2
  rw [hv6] at a1
  refine ⟨tp, k, ab, C, vgeom m10, vgeom m11, hget, ?_, hab', hC', a1, a2, hk12⟩
  unfold okOrErr at hk'
  split at hk'
  · rename_i b hb; injection hk' with hk'; rw [hb, hk']
  · cases hk'

/-! ## `split_edge` -/

/-- **an `Ok` `split_edge(i, e, p)`** is `process_hemisphere` on the live slot `i` and, when the slot has a neighbour across `e`,
    `process_hemisphere` on that neighbour (in the mesh the first one left); the final neighbour links change no corner -/
theorem splitEdge_vgeom (i : Nat) (e : Edge) (p : V3 α) (m m' : Mesh α) (h : splitEdge i e p m = (m', .ok ())) :
    ∃ tp seg m1 r1, m.triangles[i]? = some tp ∧ tp.valid = true ∧ tp.triangle.segment e.asI = .ok seg ∧
      processHemisphere seg p i m = (m1, .ok r1) ∧
      (match tp.neighbour e with
        | none => vgeom m' = vgeom m1
        | some neiI => ∃ m2 r2, processHemisphere seg p neiI m1 = (m2, .ok r2) ∧ vgeom m' = vgeom m2) := by
  unfold splitEdge at h
  obtain ⟨tp, m0, htp, h1⟩ := C01T.mbind_ok_inv _ _ _ _ _ h
  clear h
  obtain ⟨hm0, hget⟩ := C18.tgetM_ok_inv _ _ _ _ _ htp
  subst hm0
  split at h1
  · simp [MeshM.err] at h1
  · rename_i hvalid
    obtain ⟨seg, m1, hseg, h2⟩ := C01T.mbind_ok_inv _ _ _ _ _ h1
    clear h1
    obtain ⟨hm1, hseg'⟩ := ofRes_ok_inv _ _ _ _ hseg
    subst hm1
    obtain ⟨r1, m2, hh1, h3⟩ := C01T.mbind_ok_inv _ _ _ _ _ h2
    clear h2
    refine ⟨tp, seg, m2, r1, hget, by simpa using hvalid, hseg', hh1, ?_⟩
    obtain ⟨tl, tr⟩ := r1
    simp only [] at h3
    cases hn : tp.neighbour e with
    | none =>
      simp only [hn] at h3 ⊢
      simp only [MeshM.pure, Prod.mk.injEq] at h3
      rw [h3.1]
    | some neiI =>
      simp only [hn] at h3 ⊢
      obtain ⟨r2, m3, hh2, h4⟩ := C01T.mbind_ok_inv _ _ _ _ _ h3
      clear h3
      refine ⟨m3, r2, hh2, ?_⟩
      obtain ⟨br, bl⟩ := r2
      simp only [] at h4
      refine keepsV_apply _ ?_ _ _ _ h4
      exact keepsV_bind _ _ (keepsV_markAsNeighbours _ _ _) (fun _ => keepsV_markAsNeighbours _ _ _)

/-! ## `flip_diagonal` -/

/-- **an `Ok` `flip_diagonal(index, edge)`**: slot `index` (corners `A, B, C` starting at `edge`) and its neighbour across `edge`
    (`ni`, with `O` the vertex `get_opposite_vertex` answers for the segment `AB`) were live; both are blanked and exactly the
    live triangles `(A, O, C)` and `(C, O, B)` are added -/
theorem flipDiagonal_vgeom (index : Nat) (edge : Edge) (m m' : Mesh α) (h : flipDiagonal index edge m = (m', .ok ())) :
    ∃ tp nb ni A B C O l2 l3,
      m.triangles[index]? = some tp ∧ tp.valid = true ∧ tp.neighbour edge = some ni ∧
      m.triangles[ni]? = some nb ∧ nb.valid = true ∧
      tp.triangle.vertex (edge.asI % 3) = .ok A ∧ tp.triangle.vertex ((edge.asI + 1) % 3) = .ok B ∧
      tp.triangle.vertex ((edge.asI + 2) % 3) = .ok C ∧ getOppositeVertex nb.triangle (Segment.new A B) = .ok O ∧
      Added (((vgeom m).set index none).set ni none) l2 (A, O, C) ∧ Added l2 l3 (C, O, B) ∧ vgeom m' = l3 := by
  unfold flipDiagonal at h
  obtain ⟨tp, m0, htp, h1⟩ := C01T.mbind_ok_inv _ _ _ _ _ h
  clear h
  obtain ⟨hm0, hget⟩ := C18.tgetM_ok_inv _ _ _ _ _ htp
  subst hm0
  split at h1
  · simp [MeshM.panic] at h1
  · rename_i hvalid
    cases hni : tp.neighbour edge with
    | none => simp only [hni] at h1; simp [MeshM.panic] at h1
    | some ni =>
      simp only [hni] at h1
      obtain ⟨nb, m1, hnb, h2⟩ := C01T.mbind_ok_inv _ _ _ _ _ h1
      clear h1
      obtain ⟨hm1, hgetn⟩ := C18.tgetM_ok_inv _ _ _ _ _ hnb
      subst hm1
      split at h2
      · simp [MeshM.panic] at h2
      · rename_i hnvalid
        obtain ⟨A, m2, hA, h3⟩ := C01T.mbind_ok_inv _ _ _ _ _ h2
        clear h2
        obtain ⟨hm2, hA'⟩ := ofRes_ok_inv _ _ _ _ hA
        subst hm2
        obtain ⟨B, m3, hB, h4⟩ := C01T.mbind_ok_inv _ _ _ _ _ h3
        clear h3
        obtain ⟨hm3, hB'⟩ := ofRes_ok_inv _ _ _ _ hB
        subst hm3
        obtain ⟨C, m4, hC, h5⟩ := C01T.mbind_ok_inv _ _ _ _ _ h4
        clear h4
        obtain ⟨hm4, hC'⟩ := ofRes_ok_inv _ _ _ _ hC
        subst hm4
        obtain ⟨O, m5, hO, h6⟩ := C01T.mbind_ok_inv _ _ _ _ _ h5
        clear h5
        obtain ⟨hm5, hO'⟩ := ofRes_ok_inv _ _ _ _ hO
        subst hm5
        obtain ⟨acE, m6, hac, h7⟩ := C01T.mbind_ok_inv _ _ _ _ _ h6
        clear h6
        obtain ⟨hm6, _⟩ := ofRes_ok_inv _ _ _ _ hac
        subst hm6
        obtain ⟨cbE, m7, hcb, h8⟩ := C01T.mbind_ok_inv _ _ _ _ _ h7
        clear h7
        obtain ⟨hm7, _⟩ := ofRes_ok_inv _ _ _ _ hcb
        subst hm7
        obtain ⟨boE, m8, hbo, h9⟩ := C01T.mbind_ok_inv _ _ _ _ _ h8
        clear h8
        obtain ⟨hm8, _⟩ := ofRes_ok_inv _ _ _ _ hbo
        subst hm8
        obtain ⟨aoE, m9, hao, h10⟩ := C01T.mbind_ok_inv _ _ _ _ _ h9
        clear h9
        obtain ⟨hm9, _⟩ := ofRes_ok_inv _ _ _ _ hao
        subst hm9
        obtain ⟨u1, m10, hinv1, h11⟩ := C01T.mbind_ok_inv _ _ _ _ _ h10
        clear h10
        obtain ⟨_, hv10⟩ := invalidate_vgeom _ _ _ hinv1
        obtain ⟨u2, m11, hinv2, h12⟩ := C01T.mbind_ok_inv _ _ _ _ _ h11
        clear h11
        obtain ⟨_, hv11⟩ := invalidate_vgeom _ _ _ hinv2
        obtain ⟨aocI, m12, hp1, h13⟩ := C01T.mbind_ok_inv _ _ _ _ _ h12
        clear h12
        obtain ⟨cobI, m13, hp2, h14⟩ := C01T.mbind_ok_inv _ _ _ _ _ h13
        clear h13
        have hk : vgeom m' = vgeom m13 := by
          refine keepsV_apply _ ?_ _ _ _ h14
          refine keepsV_bind _ _ (keepsV_optMark _ _ _) (fun _ => ?_)
          refine keepsV_bind _ _ (keepsV_optConstrain _ _ _ _) (fun _ => ?_)
          refine keepsV_bind _ _ (keepsV_markAsNeighbours _ _ _) (fun _ => ?_)
          refine keepsV_bind _ _ (keepsV_optMark _ _ _) (fun _ => ?_)
          refine keepsV_bind _ _ (keepsV_optConstrain _ _ _ _) (fun _ => ?_)
          refine keepsV_bind _ _ (keepsV_optMark _ _ _) (fun _ => ?_)
          refine keepsV_bind _ _ (keepsV_optConstrain _ _ _ _) (fun _ => ?_)
          refine keepsV_bind _ _ (keepsV_optMark _ _ _) (fun _ => ?_)
          exact keepsV_optConstrain _ _ _ _
        have a1 := push_vgeom _ _ _ _ _ _ _ hp1
        have a2 := push_vgeom _ _ _ _ _ _ _ hp2
        rw [hv11, hv10] at a1
        exact ⟨tp, nb, ni, A, B, C, O, vgeom m12, vgeom m13, hget, by simpa using hvalid, hni, hgetn,
          by simpa using hnvalid, hA', hB', hC', hO', a1, a2, hk⟩

/-! ## over ℝ: the summed vector area of the live triangles -/

section Real
open Shoelace C01
noncomputable section

/-- twice the summed vector area of the live triangles -/
def vsum : List (Option (V3 ℝ × V3 ℝ × V3 ℝ)) → V3 ℝ
  | [] => ⟨0, 0, 0⟩
  | none :: l => vsum l
  | some (a, b, c) :: l => cyc [a, b, c] + vsum l

theorem vsum_append_single (l : List (Option (V3 ℝ × V3 ℝ × V3 ℝ))) (a b c : V3 ℝ) :
    vsum (l ++ [some (a, b, c)]) = vsum l + cyc [a, b, c] := by
  induction l with
  | nil => simp [vsum]; v3_ring
  | cons x l ih =>
    cases x with
    | none => simpa [vsum] using ih
    | some t => obtain ⟨x, y, z⟩ := t; simp only [List.cons_append, vsum, ih]; v3_ring

theorem vsum_set_some (l : List (Option (V3 ℝ × V3 ℝ × V3 ℝ))) (n : Nat) (a b c : V3 ℝ) (h : l[n]? = some none) :
    vsum (l.set n (some (a, b, c))) = vsum l + cyc [a, b, c] := by
  induction l generalizing n with
  | nil => simp at h
  | cons x l ih =>
    cases n with
    | zero =>
      simp only [List.getElem?_cons_zero, Option.some.injEq] at h
      subst h
      simp [vsum]; v3_ring
    | succ k =>
      simp only [List.getElem?_cons_succ] at h
      cases x with
      | none => simpa [vsum] using ih k h
      | some t => obtain ⟨x, y, z⟩ := t; simp only [List.set_cons_succ, vsum, ih k h]; v3_ring

theorem vsum_set_none (l : List (Option (V3 ℝ × V3 ℝ × V3 ℝ))) (n : Nat) (a b c : V3 ℝ) (h : l[n]? = some (some (a, b, c))) :
    vsum (l.set n none) + cyc [a, b, c] = vsum l := by
  induction l generalizing n with
  | nil => simp at h
  | cons x l ih =>
    cases n with
    | zero =>
      simp only [List.getElem?_cons_zero, Option.some.injEq] at h
      subst h
      simp [vsum]; v3_ring
    | succ k =>
      simp only [List.getElem?_cons_succ] at h
      cases x with
      | none => simpa [vsum] using ih k h
      | some t =>
        obtain ⟨x, y, z⟩ := t
        simp only [List.set_cons_succ, vsum]
        rw [← ih k h]; v3_ring

/-- a triangle added is its vector area added -/
theorem vsum_added (l l' : List (Option (V3 ℝ × V3 ℝ × V3 ℝ))) (a b c : V3 ℝ) (h : Added l l' (a, b, c)) :
    vsum l' = vsum l + cyc [a, b, c] := by
  rcases h with h | ⟨n, hn, h⟩
  · rw [h, vsum_append_single]
  · rw [h, vsum_set_some l n a b c hn]

/-- **`split_triangle(i, p)` keeps the summed vector area of the live triangles — for any point `p`** (exact semantics) -/
theorem splitTriangle_area (i : Nat) (p : V3 ℝ) (m m' : Mesh ℝ) (h : splitTriangle i p m = (m', .ok ())) :
    vsum (vgeom m') = vsum (vgeom m) := by
  obtain ⟨a, b, c, l1, l2, l3, hi, a1, a2, a3, hm'⟩ := splitTriangle_vgeom i p m m' h
  rw [hm', vsum_added _ _ _ _ _ a3, vsum_added _ _ _ _ _ a2, vsum_added _ _ _ _ _ a1, ← vsum_set_none _ i a b c hi,
    ← split_triangle_area a b c p]
  v3_ring

/-! ### `split_edge` over ℝ -/

theorem compare_self (a : V3 ℝ) : a.compare a = true := by
  unfold V3.compare
  bool_real
  num_real
  norm_num

theorem compare_symm (a b : V3 ℝ) : a.compare b = b.compare a := by
  unfold V3.compare
  simp only []
  rw [show Num.abs (a.x - b.x) = Num.abs (b.x - a.x) by num_real; exact abs_sub_comm _ _,
    show Num.abs (a.y - b.y) = Num.abs (b.y - a.y) by num_real; exact abs_sub_comm _ _,
    show Num.abs (a.z - b.z) = Num.abs (b.z - a.z) by num_real; exact abs_sub_comm _ _]

/-- what `Triangle3D::new` guarantees about the corners: no two of them `compare` equal -/
def Distinct (t : Triangle ℝ) : Prop :=
  t.a.compare t.b = false ∧ t.b.compare t.c = false ∧ t.c.compare t.a = false

/-- **every triangle `Triangle3D::new` accepts has pairwise distinct corners** (so every slot `push` ever fills has) -/
theorem triangle_new_distinct (a b c : V3 ℝ) (t : Triangle ℝ) (h : Triangle.new a b c = .ok t) : Distinct t := by
  obtain ⟨ha, hb, hc⟩ := C01T.triangle_new_abc a b c t h
  unfold Triangle.new at h
  split at h
  · cases h
  · rename_i hne
    simp only [Bool.or_eq_true, not_or, Bool.not_eq_true] at hne
    obtain ⟨⟨h1, h2⟩, h3⟩ := hne
    rw [Distinct, ha, hb, hc]
    exact ⟨h1, h3, by rw [compare_symm]; exact h2⟩

theorem edgeIndex_segment (t : Triangle ℝ) (hd : Distinct t) (k : Nat) (s : Segment ℝ) (hs : t.segment k = .ok s) :
    t.getEdgeIndexFromSegment s = some k := by
  obtain ⟨hab, hbc, hca⟩ := hd
  have hba : t.b.compare t.a = false := by rw [compare_symm]; exact hab
  have hcb : t.c.compare t.b = false := by rw [compare_symm]; exact hbc
  have hac : t.a.compare t.c = false := by rw [compare_symm]; exact hca
  unfold Triangle.segment at hs
  unfold Triangle.getEdgeIndexFromSegment
  match k, hs with
  | 0, hs =>
    injection hs with hs; subst hs
    simp [Segment.compare, Triangle.ab, Segment.new, compare_self]
  | 1, hs =>
    injection hs with hs; subst hs
    simp [Segment.compare, Triangle.ab, Triangle.bc, Segment.new, compare_self, hba, hca]
  | 2, hs =>
    injection hs with hs; subst hs
    simp [Segment.compare, Triangle.ab, Triangle.bc, Triangle.ca, Segment.new, compare_self, hca, hcb, hab, hac]

/-- the stored edge `k` and the vertex opposite to it are a cyclic rotation of the corners -/
theorem edge_opposite_rotation (t : Triangle ℝ) (hd : Distinct t) (k : Nat) (s : Segment ℝ) (C : V3 ℝ)
    (hs : t.segment k = .ok s) (hC : getOppositeVertex t s = .ok C) :
    cyc [s.start, s.stop, C] = cyc [t.a, t.b, t.c] := by
  have hk := edgeIndex_segment t hd k s hs
  unfold getOppositeVertex at hC
  rw [hk] at hC
  unfold Triangle.segment at hs
  match k, hs, hC with
  | 0, hs, hC =>
    injection hs with hs; subst hs
    simp only [Triangle.vertex] at hC
    injection hC with hC; subst hC
    rfl
  | 1, hs, hC =>
    injection hs with hs; subst hs
    simp only [Triangle.vertex] at hC
    injection hC with hC; subst hC
    simp only [Triangle.bc, Segment.new, cyc_triangle]; v3_ring
  | 2, hs, hC =>
    injection hs with hs; subst hs
    simp only [Triangle.vertex] at hC
    injection hC with hC; subst hC
    simp only [Triangle.ca, Segment.new, cyc_triangle]; v3_ring

/-- **one side of `split_edge` over ℝ**: for a live slot with pairwise distinct corners, an `Ok` `process_hemisphere` changes the
    summed vector area of the live triangles by exactly `−(A, B, p)`, the (vector area of the) triangle between the split
    edge `A → B` as the slot stores it and the split point — zero when `p` lies on the line `AB` -/
theorem processHemisphere_area (seg : Segment ℝ) (p : V3 ℝ) (index : Nat) (m m' : Mesh ℝ) (r : Nat × Nat)
    (h : processHemisphere seg p index m = (m', .ok r))
    (hlive : ∀ tp, m.triangles[index]? = some tp → tp.valid = true ∧ Distinct tp.triangle) :
    ∃ A B, vsum (vgeom m') + cyc [A, B, p] = vsum (vgeom m) := by
  obtain ⟨tp, k, ab, C, l1, l2, hget, _, hab, hC, a1, a2, hm'⟩ := processHemisphere_vgeom seg p index m m' r h
  obtain ⟨hv, hd⟩ := hlive tp hget
  refine ⟨ab.start, ab.stop, ?_⟩
  have hslot : (vgeom m)[index]? = some (some (tp.triangle.a, tp.triangle.b, tp.triangle.c)) := by
    rw [vgeom_getElem?, hget]; simp [slotV, hv]
  rw [hm', vsum_added _ _ _ _ _ a2, vsum_added _ _ _ _ _ a1, ← vsum_set_none _ index _ _ _ hslot,
    ← edge_opposite_rotation tp.triangle hd k ab C hab hC]
  simp only [cyc_triangle]
  v3_ring

/-- a point of the line `AB` spans no area with `A`, `B` -/
theorem cyc_on_line (a b : V3 ℝ) (s : ℝ) : cyc [a, b, a + (b - a).smul s] = ⟨0, 0, 0⟩ := by
  rw [cyc_triangle]; v3_ring

/-! ### `flip_diagonal` over ℝ -/

theorem vertex_rotation (t : Triangle ℝ) (e : Edge) (A B C : V3 ℝ) (hA : t.vertex (e.asI % 3) = .ok A)
    (hB : t.vertex ((e.asI + 1) % 3) = .ok B) (hC : t.vertex ((e.asI + 2) % 3) = .ok C) :
    cyc [A, B, C] = cyc [t.a, t.b, t.c] := by
  cases e <;> simp [Edge.asI, Triangle.vertex] at hA hB hC <;> subst hA hB hC
  · rfl
  · simp only [cyc_triangle]; v3_ring
  · simp only [cyc_triangle]; v3_ring

/-- **`flip_diagonal` over ℝ**: the two live triangles `(A, B, C)` (slot `index`) and the neighbour's are replaced by
    `(A, O, C)` and `(C, O, B)`; the summed vector area of the live triangles changes by exactly the difference, which is zero
    (`flip_area`) whenever the neighbour's corners are `B, A, O` in some rotation, i.e. the two triangles really share the
    edge `AB` with opposite orientation -/
theorem flipDiagonal_area (index : Nat) (edge : Edge) (m m' : Mesh ℝ) (h : flipDiagonal index edge m = (m', .ok ())) :
    ∃ tp nb ni A B O, m.triangles[index]? = some tp ∧ tp.neighbour edge = some ni ∧ m.triangles[ni]? = some nb ∧
      tp.triangle.vertex (edge.asI % 3) = .ok A ∧ tp.triangle.vertex ((edge.asI + 1) % 3) = .ok B ∧
      getOppositeVertex nb.triangle (Segment.new A B) = .ok O ∧
      (ni ≠ index → cyc [nb.triangle.a, nb.triangle.b, nb.triangle.c] = cyc [B, A, O] →
        vsum (vgeom m') = vsum (vgeom m)) := by
  obtain ⟨tp, nb, ni, A, B, C, O, l2, l3, hget, hv, hni, hgetn, hnv, hA, hB, hC, hO, a1, a2, hm'⟩ :=
    flipDiagonal_vgeom index edge m m' h
  refine ⟨tp, nb, ni, A, B, O, hget, hni, hgetn, hA, hB, hO, ?_⟩
  intro hne hshare
  have hs1 : (vgeom m)[index]? = some (some (tp.triangle.a, tp.triangle.b, tp.triangle.c)) := by
    rw [vgeom_getElem?, hget]; simp [slotV, hv]
  have hs2 : ((vgeom m).set index none)[ni]? = some (some (nb.triangle.a, nb.triangle.b, nb.triangle.c)) := by
    rw [List.getElem?_set_ne (by omega), vgeom_getElem?, hgetn]; simp [slotV, hnv]
  have e1 := vsum_set_none _ index _ _ _ hs1
  have e2 := vsum_set_none _ ni _ _ _ hs2
  have hrot := vertex_rotation tp.triangle edge A B C hA hB hC
  rw [hm', vsum_added _ _ _ _ _ a2, vsum_added _ _ _ _ _ a1, ← e1, ← e2, ← hrot, hshare]
  have := flip_area A B C O
  simp only [cyc_triangle] at this ⊢
  have hx := congrArg V3.x this
  have hy := congrArg V3.y this
  have hz := congrArg V3.z this
  apply V3.ext' <;> simp only [V3.add_def] at hx hy hz ⊢ <;> num_real_at hx <;> num_real_at hy <;> num_real_at hz <;> num_real <;> linarith

end
end Real

end G3d.C08S
