import G3d.Props.C12Area
/-!
# C12 / C09 — `try_get_closed_loop` never panics

For every scalar type in which the literal `9E14` is not below itself (the reals, hardware floats): on a polygon whose holes have at
least one vertex each, the nearest-pair search delivers valid indices (`C12A.searchExtVertices_good`), the copy choice and the
hole walk index within bounds, `push` never panics (C04) — so `try_get_closed_loop` returns `Ok` or `Err`, never a panic
(`tryGetClosedLoop_noPanic`), and `get_closed_loop`, which unwraps it, panics exactly when it returns `Err`
(`getClosedLoop_panic_iff_err`; the known finding `panic:merge-drops-vertex` is such an `Err`).
-/
namespace G3d.C12N
open G3d Num C04 C12 C12A
section generic
variable {α : Type} [Num α]
set_option linter.unusedSectionVars false

theorem index_ok (l : Loop α) (i : Nat) (h : i < l.vertices.length) : l.index i = .ok l.vertices[i] := by
  unfold Loop.index
  have : ¬ i ≥ l.vertices.length := by omega
  simp only [this, if_false, C04.vget_lt h]

theorem noPanic_bind {β γ : Type} (x : Res β) (f : β → Res γ) (hx : NoPanic x) (hf : ∀ b, x = .ok b → NoPanic (f b)) :
    NoPanic (x >>= f) := by
  cases x with
  | ok b => exact hf b rfl
  | err e => intro s h; cases h
  | panic q => exact absurd rfl (hx q)

theorem pushQ_noPanic (aux : Loop α) (p : V3 α) (site : String) : NoPanic (Polygon.pushQ aux p site) := by
  unfold Polygon.pushQ
  have := C04.push_noPanic aux p
  cases hp : aux.push p with
  | mk a r =>
    rw [hp] at this
    cases r with
    | ok u => intro s h; cases h
    | err e => intro s h; cases h
    | panic q => exact absurd rfl (this q)

theorem addInnerVertices_noPanic (il : Loop α) (same : Bool) (s : Nat) (hn : 0 < il.vertices.length) :
    ∀ (fuel j : Nat) (aux : Loop α), NoPanic (Polygon.addInnerVertices il same s il.vertices.length fuel j aux) := by
  intro fuel
  induction fuel with
  | zero => intro j aux; unfold Polygon.addInnerVertices; exact noPanic_ok _
  | succ f ih =>
    intro j aux
    unfold Polygon.addInnerVertices
    have hne : (il.vertices.length == 0) = false := by simp only [beq_eq_false_iff_ne, ne_eq]; omega
    simp only [hne, Bool.false_eq_true, if_false]
    refine noPanic_bind _ _ ?_ (fun iv _ => ?_)
    · rw [index_ok il _ (by split <;> exact Nat.mod_lt _ hn)]
      exact noPanic_ok _
    · exact noPanic_bind _ _ (pushQ_noPanic _ _ _) (fun aux1 _ => ih _ _)

theorem buildAux_noPanic (inner : List (Loop α)) (N : V3 α) (m ml s : Nat)
    (hml : ∃ il, inner[ml]? = some il) (hin : ∀ il ∈ inner, 0 < il.vertices.length) :
    ∀ (ext : List (V3 α)) (i : Nat) (aux : Loop α), NoPanic (Polygon.buildAux inner N m ml s ext i aux) := by
  intro ext
  induction ext with
  | nil => intro i aux; unfold Polygon.buildAux; exact noPanic_ok _
  | cons e rest ih =>
    intro i aux
    unfold Polygon.buildAux
    refine noPanic_bind _ _ (pushQ_noPanic _ _ _) (fun aux1 _ => ?_)
    simp only []
    by_cases hi : (i == m) = true
    · obtain ⟨il, hil⟩ := hml
      have hmem : il ∈ inner := List.mem_of_getElem? hil
      simp only [hi, if_true, hil]
      refine noPanic_bind _ _ (noPanic_ok _) (fun il' hil' => ?_)
      injection hil' with hil'
      subst hil'
      refine noPanic_bind _ _ (addInnerVertices_noPanic il _ _ (hin il hmem) _ _ _) (fun aux3 _ => ?_)
      exact noPanic_bind _ _ (pushQ_noPanic _ _ _) (fun aux2 _ => ih _ _)
    · simp only [hi, Bool.false_eq_true, if_false]
      exact noPanic_bind _ _ (noPanic_ok _) (fun aux2 _ => ih _ _)

theorem chooseCopyLoop_noPanic (ret : Loop α) (ev br N : V3 α) (hpos : 0 < ret.vertices.length) :
    ∀ (fuel j cur : Nat), j + fuel ≤ ret.vertices.length →
      NoPanic (Polygon.chooseCopyLoop ret ret.len ev br N fuel j cur) := by
  intro fuel
  induction fuel with
  | zero => intro j cur _; unfold Polygon.chooseCopyLoop; exact noPanic_ok _
  | succ f ih =>
    intro j cur hj
    unfold Polygon.chooseCopyLoop
    refine noPanic_bind _ _ (by rw [index_ok ret j (by omega)]; exact noPanic_ok _) (fun rj _ => ?_)
    split
    · exact ih _ _ (by omega)
    · have hne : (ret.len == 0) = false := by simp only [Loop.len, beq_eq_false_iff_ne, ne_eq]; omega
      simp only [hne, Bool.false_eq_true, if_false]
      have hlen : ret.len = ret.vertices.length := rfl
      refine noPanic_bind _ _ (by rw [hlen, index_ok ret _ (Nat.mod_lt _ hpos)]; exact noPanic_ok _) (fun prev _ => ?_)
      refine noPanic_bind _ _ (by rw [hlen, index_ok ret _ (Nat.mod_lt _ hpos)]; exact noPanic_ok _) (fun next _ => ?_)
      repeat' split
      all_goals first | exact noPanic_ok _ | exact ih _ _ (by omega)

/-- the copy choice never panics when the search result is a pair it found (`Good`) or its untouched start value -/
theorem chooseCopy_noPanic (pg : Polygon α) (ret : Loop α) (N : V3 α) (s : Polygon.MinSearch α)
    (h : ((s.minDistance <. (9E14 : α)) = false) ∨ Good pg.inner [] ret.vertices.length s ∨
      (∃ pr, Good pg.inner pr ret.vertices.length s)) :
    NoPanic (Polygon.chooseCopy pg ret N s) := by
  unfold Polygon.chooseCopy
  by_cases hd : (s.minDistance <. (9E14 : α)) = true
  · simp only [hd, if_true]
    have hg : ∃ pr, Good pg.inner pr ret.vertices.length s := by
      rcases h with h | h | h
      · rw [hd] at h; cases h
      · exact ⟨[], h⟩
      · exact h
    obtain ⟨pr, il, hil, hsl, hml, _, _⟩ := hg
    refine noPanic_bind _ _ (by rw [index_ok ret _ hml]; exact noPanic_ok _) (fun ev _ => ?_)
    simp only [hil]
    refine noPanic_bind _ _ (noPanic_ok _) (fun il' hil' => ?_)
    injection hil' with hil'
    subst hil'
    refine noPanic_bind _ _ (by rw [index_ok il _ hsl]; exact noPanic_ok _) (fun iv _ => ?_)
    exact chooseCopyLoop_noPanic ret _ _ _ (by omega) _ _ _ (by simp [Loop.len])
  · simp only [hd, Bool.false_eq_true, if_false]
    exact noPanic_ok _

/-- **`try_get_closed_loop` never panics** on a polygon whose holes have at least one vertex each (every closed loop has three):
    the indices delivered by the nearest-pair search and the copy choice are valid, `push` never panics (C04), and the hole walk
    indexes modulo the hole's length -/
theorem closedLoopIter_noPanic (pg : Polygon α) (N : V3 α) (hin : ∀ il ∈ pg.inner, 0 < il.vertices.length)
    (hirr : (((9E14 : α)) <. (9E14 : α)) = false) :
    ∀ (fuel : Nat) (st : Polygon.ClosedLoopState α), fuel ≤ pg.inner.length →
      NoPanic (Polygon.closedLoopIter pg N fuel st) := by
  intro fuel
  induction fuel with
  | zero => intro st _; unfold Polygon.closedLoopIter; exact noPanic_ok _
  | succ f ih =>
    intro st hf
    rw [closedLoopIter_succ]
    have hgood := searchExtVertices_good pg.inner st.processed st.retLoop.vertices.length (searchStart st)
      st.retLoop.vertices 0 (searchStart st) (by simp) (Or.inl rfl)
    generalize hsdef : Polygon.searchExtVertices pg.inner st.processed st.retLoop.vertices 0 (searchStart st) = s at hgood ⊢
    have hcc : NoPanic (Polygon.chooseCopy pg st.retLoop N s) := by
      apply chooseCopy_noPanic
      rcases hgood with h0 | hg
      · left; rw [h0]; exact hirr
      · right; right; exact ⟨_, hg⟩
    cases hc : Polygon.chooseCopy pg st.retLoop N s with
    | err e => intro q h; cases h
    | panic q => exact absurd hc (hcc q)
    | ok m =>
      simp only []
      have hml : ∃ il, pg.inner[s.minInnerLoopId]? = some il := by
        rcases hgood with h0 | ⟨il, hil, _⟩
        · rw [h0]
          simp only [searchStart]
          have : 0 < pg.inner.length := by omega
          exact ⟨pg.inner[0], by simp [List.getElem?_eq_getElem this]⟩
        · exact ⟨il, hil⟩
      have hb := buildAux_noPanic pg.inner N m s.minInnerLoopId s.innerVertexId hml hin st.retLoop.vertices 0 Loop.new
      cases hbb : Polygon.buildAux pg.inner N m s.minInnerLoopId s.innerVertexId st.retLoop.vertices 0 Loop.new with
      | err e => intro q h; cases h
      | panic q => exact absurd hbb (hb q)
      | ok aux =>
        simp only []
        exact ih _ (by omega)

theorem tryGetClosedLoop_noPanic (pg : Polygon α) (hin : ∀ il ∈ pg.inner, 0 < il.vertices.length)
    (hirr : (((9E14 : α)) <. (9E14 : α)) = false) : NoPanic pg.tryGetClosedLoop := by
  unfold Polygon.tryGetClosedLoop
  exact closedLoopIter_noPanic pg _ hin hirr _ _ (Nat.le_refl _)
end generic

/-- over ℝ (and for hardware floats) the literal is not below itself -/
theorem real_irrefl : (((9E14 : ℝ)) <. (9E14 : ℝ)) = false := by
  bool_real; exact le_refl _

/-- `get_closed_loop` panics exactly when `try_get_closed_loop` returns an `Err` -/
theorem getClosedLoop_panic_iff_err {α : Type} [Num α] (pg : Polygon α) (hnp : NoPanic pg.tryGetClosedLoop) :
    (∃ q, pg.getClosedLoop = .panic q) ↔ ∃ e, pg.tryGetClosedLoop = .err e := by
  unfold Polygon.getClosedLoop Res.unwrap
  cases h : pg.tryGetClosedLoop with
  | ok l => simp
  | err e => simp
  | panic q => exact absurd h (hnp q)

theorem tryGetClosedLoop_noPanic_real (pg : Polygon ℝ) (hin : ∀ il ∈ pg.inner, 0 < il.vertices.length) :
    NoPanic pg.tryGetClosedLoop := tryGetClosedLoop_noPanic pg hin real_irrefl
end G3d.C12N
