import G3d.Props.C04
import G3d.Model.Json
/-!
# C20 — JSON round trip; malformed input is an error, never a panic

About the `Deserialize`/`Serialize` impls of `Loop3D` from the parsed `serde_json::Value` inwards (generic in the scalar type):

* `deserialize_noPanic` — whatever the document, reading a loop never panics (by C04: no `push`/`close` ever panics).
* `deserialize_not_array`, `deserialize_ok_arity`, `deserialize_too_few` — a document that is not an array, whose length is
  not a multiple of three, that contains a non-number, or that has fewer than nine numbers is an `Err`.
* `deserialize_ok_wellformed` — whatever is read back successfully is a closed loop with ≥ 3 vertices and no vertex that
  `is_collinear` calls collinear with its neighbours (by C04's history invariant).
* `roundtrip_vertices` — reading back the serialisation of a well-formed closed loop, *if it succeeds*, gives a closed loop
  with exactly the same vertices in the same order.  (That it does succeed is the crossing/coplanarity gate of C04 applied
  to an outline that already passed it once; in floating point this is judged by the oracle, see DESIGN.)
The JSON text layer (serde_json's parser and float printing) is outside the model.
-/
namespace G3d.C20
open G3d Num C04
set_option linter.unusedSectionVars false
variable {α : Type} [Num α]

/-- the flat coordinate list `Serialize` emits -/
def flat (vs : List (V3 α)) : List α := vs.foldr (fun v acc => v.x :: v.y :: v.z :: acc) []

theorem serialize_eq (l : Loop α) : l.serialize = flat l.vertices := rfl

theorem flat_length (vs : List (V3 α)) : (flat vs).length = 3 * vs.length := by
  induction vs with
  | nil => rfl
  | cons v t ih => simp [flat] at ih ⊢; omega

/-- the document `Serialize` produces -/
def toJson (l : Loop α) : Json α := .arr (l.serialize.map .num)

/-! ## never a panic -/

theorem deserializeItems_noPanic : ∀ (n : Nat) (a : List (Json α)) (ret : Loop α), a.length ≤ n →
    NoPanic (Loop.deserializeItems a ret) := by
  intro n
  induction n with
  | zero =>
    intro a ret h
    have : a = [] := by cases a with | nil => rfl | cons x t => simp at h
    subst this; simp [Loop.deserializeItems]; exact noPanic_ok _
  | succ k ih =>
    intro a ret h
    unfold Loop.deserializeItems
    split
    · exact noPanic_ok _
    · rename_i x y z rest
      have hp := push_noPanic ret ⟨x, y, z⟩
      split
      · rename_i ret' heq
        apply ih; simp at h; omega
      · exact noPanic_err _
      · rename_i q heq
        have : (ret.push ⟨x, y, z⟩).2 = .panic q := by rw [heq]
        exact absurd this (hp q)
    · exact noPanic_err _

/-- **reading a loop never panics, whatever the document** -/
theorem deserialize_noPanic (data : Json α) : NoPanic (Loop.deserialize data) := by
  unfold Loop.deserialize
  split
  · rename_i a
    have h1 := deserializeItems_noPanic a.length a Loop.new (Nat.le_refl _)
    split
    · exact noPanic_err _
    · rename_i q heq; exact absurd heq (h1 q)
    · rename_i ret heq
      have h2 := close_noPanic ret
      split
      · exact noPanic_ok _
      · exact noPanic_err _
      · rename_i q heq2
        have : ret.close.2 = .panic q := by rw [heq2]
        exact absurd this (h2 q)
  · exact noPanic_err _

/-! ## malformed documents are errors -/

theorem deserialize_not_array (data : Json α) (h : ∀ a, data ≠ .arr a) : ∃ e, Loop.deserialize data = .err e := by
  unfold Loop.deserialize
  split
  · rename_i a; exact absurd rfl (h a)
  · exact ⟨_, rfl⟩

def isNum : Json α → Bool
  | .num _ => true
  | _ => false

/-- the items loop only succeeds on a flat list of `3k` numbers, and it grows the outline by at most `k` vertices -/
theorem deserializeItems_ok : ∀ (n : Nat) (a : List (Json α)) (ret r : Loop α), a.length ≤ n →
    Loop.deserializeItems a ret = .ok r →
      a.length % 3 = 0 ∧ (∀ e ∈ a, isNum e = true) ∧ 3 * r.vertices.length ≤ 3 * ret.vertices.length + a.length := by
  intro n
  induction n with
  | zero =>
    intro a ret r h hr
    have : a = [] := by cases a with | nil => rfl | cons x t => simp at h
    subst this
    simp [Loop.deserializeItems] at hr
    subst hr; simp
  | succ k ih =>
    intro a ret r h hr
    unfold Loop.deserializeItems at hr
    split at hr
    · cases hr; simp
    · rename_i x y z rest
      split at hr
      · rename_i ret' heq
        obtain ⟨h1, h2, h3⟩ := ih rest ret' r (by simp at h; omega) hr
        refine ⟨by simp; omega, ?_, ?_⟩
        · intro e he
          simp at he
          rcases he with rfl | rfl | rfl | he
          · rfl
          · rfl
          · rfl
          · exact h2 e he
        · have hlen : ret'.vertices.length ≤ ret.vertices.length + 1 := by
            have : ret' = (ret.push ⟨x, y, z⟩).1 := by rw [heq]
            rw [this]
            rcases push_cases ret ⟨x, y, z⟩ with ⟨e, _, he⟩ | ⟨q, _, hq⟩ | ⟨_, vs', nrm', hp, ⟨_, hh⟩ | ⟨_, hh⟩⟩
            · rw [he]; simp
            · rw [hq]; simp
            · rw [hh]; have := hp.length_le; simp; omega
            · rw [hh]; have := hp.length_le; simp; omega
          simp; omega
      · cases hr
      · cases hr
    · cases hr

/-- **wrong arity or a non-numeric element is an `Err`** (contrapositive form: success implies `3k` numbers) -/
theorem deserialize_ok_arity (a : List (Json α)) (r : Loop α) (h : Loop.deserialize (.arr a) = .ok r) :
    a.length % 3 = 0 ∧ ∀ e ∈ a, isNum e = true := by
  unfold Loop.deserialize at h
  simp only [] at h
  split at h
  · cases h
  · cases h
  · rename_i ret heq
    obtain ⟨h1, h2, _⟩ := deserializeItems_ok a.length a Loop.new ret (Nat.le_refl _) heq
    exact ⟨h1, h2⟩

/-- **fewer than nine numbers (three points) is an `Err`** -/
theorem deserialize_too_few (a : List (Json α)) (h9 : a.length < 9) : ∃ e, Loop.deserialize (.arr a) = .err e := by
  have hnp := deserialize_noPanic (Json.arr a)
  cases hd : Loop.deserialize (.arr a) with
  | err e => exact ⟨e, rfl⟩
  | panic q => exact absurd hd (hnp q)
  | ok r =>
    exfalso
    unfold Loop.deserialize at hd
    simp only [] at hd
    split at hd
    · cases hd
    · cases hd
    · rename_i ret heq
      obtain ⟨_, _, h3⟩ := deserializeItems_ok a.length a Loop.new ret (Nat.le_refl _) heq
      have hlt : ret.vertices.length < 3 := by simp [Loop.new] at h3; omega
      have : ret.close = (ret, .err "loop3d.rs:close:less-than-3") := by
        unfold Loop.close; simp [hlt]
      rw [this] at hd
      cases hd

/-! ## what is read back is well-formed -/

/-- the pushes of the items loop as a C04 history -/
theorem deserializeItems_run : ∀ (n : Nat) (a : List (Json α)) (ret r : Loop α), a.length ≤ n →
    Loop.deserializeItems a ret = .ok r → ∃ ops : List (Op α), r = run ret ops := by
  intro n
  induction n with
  | zero =>
    intro a ret r h hr
    have : a = [] := by cases a with | nil => rfl | cons x t => simp at h
    subst this
    simp [Loop.deserializeItems] at hr
    exact ⟨[], by subst hr; rfl⟩
  | succ k ih =>
    intro a ret r h hr
    unfold Loop.deserializeItems at hr
    split at hr
    · cases hr; exact ⟨[], rfl⟩
    · rename_i x y z rest
      split at hr
      · rename_i ret' heq
        obtain ⟨ops, ho⟩ := ih rest ret' r (by simp at h; omega) hr
        refine ⟨Op.push ⟨x, y, z⟩ :: ops, ?_⟩
        have : ret' = (step ret (Op.push ⟨x, y, z⟩)).1 := by simp [step, heq]
        rw [ho, this]; rfl
      · cases hr
      · cases hr
    · cases hr

/-- **a loop that was read back successfully is closed, has at least three vertices, and none of them is collinear (for
    `is_collinear`) with its two neighbours** -/
theorem deserialize_ok_wellformed (data : Json α) (r : Loop α) (h : Loop.deserialize data = .ok r) :
    r.closed = true ∧ 3 ≤ r.vertices.length ∧ CyclicNoRedundant r.vertices := by
  unfold Loop.deserialize at h
  split at h
  · rename_i a
    split at h
    · cases h
    · cases h
    · rename_i ret heq
      obtain ⟨ops, ho⟩ := deserializeItems_run a.length a Loop.new ret (Nat.le_refl _) heq
      have hw : WellFormed ret := by rw [ho]; exact closed_loop_wellformed ops
      split at h
      · rename_i ret' heq2
        cases h
        have hok : ret.close.2 = .ok () := by rw [heq2]
        obtain ⟨hc, h3, _, hcy⟩ := close_ok_cyclic ret hw.1 hok
        rw [heq2] at hc h3 hcy
        exact ⟨hc, h3, hcy⟩
      · cases h
      · cases h
  · cases h

/-! ## round trip -/

theorem getD_true_eq_false {o : Option Bool} (h : o.getD true = false) : o = some false := by
  cases o with
  | none => simp at h
  | some b => simp at h; rw [h]

/-- when the point fits after the last vertex the dropping loop of `push` drops nothing -/
theorem pushDrop_of_fits (p : V3 α) (vs : List (V3 α)) (nrm : V3 α) (hf : FitsAfter vs p) (fuel : Nat) :
    Loop.pushDrop p (fuel + 1) vs nrm = .ok (vs, nrm, true) := by
  unfold Loop.pushDrop
  by_cases h1 : 1 ≤ vs.length
  · have hl : vs.length - 1 < vs.length := by omega
    simp only [h1, if_true, vget_lt hl, bind, Res.bind, pure, hf.1 (by omega)]
    by_cases h2 : 2 ≤ vs.length
    · have hl2 : vs.length - 2 < vs.length := by omega
      simp only [h2, if_true, vget_lt hl2, hf.2 (by omega), Bool.false_eq_true, if_false]
    · simp only [h2, if_false]
  · have h2 : ¬ 2 ≤ vs.length := by omega
    simp only [h1, h2, if_false, pure]

theorem push_of_fits (l : Loop α) (p : V3 α) (hv : l.validToAdd p = .ok ()) (hf : FitsAfter l.vertices p) :
    (l.push p).2 = .ok () ∧ (l.push p).1.vertices = l.vertices ++ [p] ∧ (l.push p).1.closed = l.closed := by
  unfold Loop.push
  simp only [hv, pushDrop_of_fits p l.vertices l.normal hf l.vertices.length]
  by_cases h3 : (l.vertices ++ [p]).length = 3
  · obtain ⟨nrm, hn⟩ := setNormal_of_length_three { l with vertices := l.vertices ++ [p], normal := l.normal } h3
    have h3' : ((l.vertices ++ [p]).length == 3) = true := by simp [h3]
    simp only [h3', if_true, hn]
    exact ⟨by trivial, by trivial, by trivial⟩
  · have h3' : ((l.vertices ++ [p]).length == 3) = false := by
      simp only [beq_eq_false_iff_ne, ne_eq]; exact h3
    simp only [h3', Bool.false_eq_true, if_false]
    exact ⟨by trivial, by trivial, by trivial⟩

theorem fitsAfter_of_noRedundant (pre : List (V3 α)) (v : V3 α) (rest : List (V3 α))
    (h : NoRedundant (pre ++ v :: rest)) : FitsAfter pre v := by
  constructor
  · intro hpos
    have := h.1 (pre.length - 1) (by simp; omega)
    have e1 : (pre ++ v :: rest)[pre.length - 1]'(by simp; omega) = pre[pre.length - 1] :=
      List.getElem_append_left (by omega)
    have e2 : (pre ++ v :: rest)[pre.length - 1 + 1]'(by simp; omega) = v := by
      rw [List.getElem_append_right (by omega)]
      simp [show pre.length - 1 + 1 - pre.length = 0 by omega]
    rw [e1, e2] at this
    exact this
  · intro hpos
    have := h.2 (pre.length - 2) (by simp; omega)
    have e1 : (pre ++ v :: rest)[pre.length - 2]'(by simp; omega) = pre[pre.length - 2] :=
      List.getElem_append_left (by omega)
    have e2 : (pre ++ v :: rest)[pre.length - 2 + 1]'(by simp; omega) = pre[pre.length - 1] := by
      rw [List.getElem_append_left (by omega)]; congr 1; omega
    have e3 : (pre ++ v :: rest)[pre.length - 2 + 2]'(by simp; omega) = v := by
      rw [List.getElem_append_right (by omega)]
      simp [show pre.length - 2 + 2 - pre.length = 0 by omega]
    rw [e1, e2, e3] at this
    exact this

/-- feeding the serialised coordinates of an outline without redundant vertices reproduces that outline vertex by vertex -/
theorem deserializeItems_flat : ∀ (vs : List (V3 α)) (ret r : Loop α),
    NoRedundant (ret.vertices ++ vs) →
    Loop.deserializeItems ((flat vs).map Json.num) ret = .ok r →
      r.vertices = ret.vertices ++ vs ∧ r.closed = ret.closed := by
  intro vs
  induction vs with
  | nil =>
    intro ret r _ hr
    simp [flat, Loop.deserializeItems] at hr
    subst hr; simp
  | cons v t ih =>
    intro ret r hn hr
    have hflat : (flat (v :: t)).map Json.num
        = Json.num v.x :: Json.num v.y :: Json.num v.z :: (flat t).map Json.num := by simp [flat]
    rw [hflat] at hr
    unfold Loop.deserializeItems at hr
    have hfit := fitsAfter_of_noRedundant ret.vertices v t hn
    cases hv : ret.validToAdd ⟨v.x, v.y, v.z⟩ with
    | ok u =>
      obtain ⟨hok, hvs, hcl⟩ := push_of_fits ret ⟨v.x, v.y, v.z⟩ hv hfit
      cases hp : ret.push ⟨v.x, v.y, v.z⟩ with
      | mk ret' res =>
        rw [hp] at hok hvs hcl hr
        simp only [] at hok hvs hcl
        subst hok
        simp only [] at hr
        have hn' : NoRedundant (ret'.vertices ++ t) := by
          rw [hvs, List.append_assoc]; exact hn
        obtain ⟨h1, h2⟩ := ih ret' r hn' hr
        rw [h1, hvs, h2, hcl]
        simp
    | err e =>
      have : ¬ (ret.push ⟨v.x, v.y, v.z⟩).2 = .ok () := fun hh => by
        have := (push_ok_iff_valid ret ⟨v.x, v.y, v.z⟩).mp hh
        rw [hv] at this; cases this
      cases hp : ret.push ⟨v.x, v.y, v.z⟩ with
      | mk ret' res =>
        rw [hp] at hr this
        cases res with
        | ok u => exact absurd rfl this
        | err e => cases hr
        | panic q => cases hr
    | panic q => exact absurd hv (validToAdd_noPanic ret _ q)

/-- when neither end of the seam is redundant the seam loop of `close` drops nothing -/
theorem closeSeam_of_seam (vs : List (V3 α)) (hs : Seam vs) (fuel : Nat) :
    Loop.closeSeam (fuel + 1) vs = .ok vs := by
  obtain ⟨h3, hs1, hs2⟩ := hs
  unfold Loop.closeSeam
  have hn : ¬ vs.length < 3 := by omega
  have hl2 : vs.length - 2 < vs.length := by omega
  have hl1 : vs.length - 1 < vs.length := by omega
  have hl0 : 0 < vs.length := by omega
  have hl1' : 1 < vs.length := by omega
  simp only [hn, if_false, vget_lt hl2, vget_lt hl1, vget_lt hl0, vget_lt hl1', bind, Res.bind, V3.isCollinearR, hs1, hs2,
    Bool.false_eq_true]

theorem seam_of_cyclic {vs : List (V3 α)} (h3 : 3 ≤ vs.length) (hc : CyclicNoRedundant vs) : Seam vs := by
  refine ⟨h3, ?_, ?_⟩
  · have := hc (vs.length - 2) (by omega)
    have e1 : (vs.length - 2 + 1) % vs.length = vs.length - 1 := by
      rw [Nat.mod_eq_of_lt (by omega)]; omega
    have e2 : (vs.length - 2 + 2) % vs.length = 0 := by
      rw [show vs.length - 2 + 2 = vs.length by omega]; exact Nat.mod_self _
    simp only [e1, e2] at this
    exact getD_true_eq_false this
  · have := hc (vs.length - 1) (by omega)
    have e1 : (vs.length - 1 + 1) % vs.length = 0 := by
      rw [show vs.length - 1 + 1 = vs.length by omega]; exact Nat.mod_self _
    have e2 : (vs.length - 1 + 2) % vs.length = 1 := by
      rw [show vs.length - 1 + 2 = vs.length + 1 by omega, Nat.add_mod, Nat.mod_self]
      simp; exact Nat.mod_eq_of_lt (by omega)
    simp only [e1, e2] at this
    exact getD_true_eq_false this

/-- **round trip**: reading back the serialisation of a closed loop that satisfies the library's own well-formedness
    invariant (C04: `≥ 3` vertices, none collinear with its neighbours), if it succeeds, yields a closed loop with exactly the
    same vertices in the same order -/
theorem roundtrip_vertices (l r : Loop α) (h3 : 3 ≤ l.vertices.length) (hn : NoRedundant l.vertices)
    (hc : CyclicNoRedundant l.vertices) (h : Loop.deserialize (toJson l) = .ok r) :
    r.vertices = l.vertices ∧ r.closed = true := by
  unfold Loop.deserialize toJson at h
  simp only [serialize_eq] at h
  split at h
  · cases h
  · cases h
  · rename_i ret heq
    obtain ⟨hv, _⟩ := deserializeItems_flat l.vertices Loop.new ret (by simpa [Loop.new] using hn) heq
    have hv' : ret.vertices = l.vertices := by simpa [Loop.new] using hv
    split at h
    · rename_i ret' heq2
      cases h
      rcases close_cases ret with ⟨e, he⟩ | ⟨_, hcl, vs', hcs, hvs⟩
      · rw [he] at heq2; cases heq2
      · rw [heq2] at hcl hvs
        simp only [] at hcl hvs
        rw [hv', closeSeam_of_seam l.vertices (seam_of_cyclic h3 hc)] at hcs
        cases hcs
        exact ⟨hvs, hcl⟩
    · cases h
    · cases h

/-! ## polygons -/

/-- **reading a polygon never panics either**: the `area().expect(..)` of `From<Loop3D>` is only reached with a closed loop -/
theorem poly_deserialize_noPanic (data : Json α) : NoPanic (Polygon.deserialize data) := by
  unfold Polygon.deserialize
  have hnp := deserialize_noPanic data
  cases hd : Loop.deserialize data with
  | err e => simp only [bind, Res.bind]; exact noPanic_err _
  | panic q => exact absurd hd (hnp q)
  | ok r =>
    obtain ⟨hc, _, _⟩ := deserialize_ok_wellformed data r hd
    simp only [bind, Res.bind, Polygon.ofLoop, Loop.areaR, hc, Bool.not_true, Bool.false_eq_true, if_false]
    exact noPanic_ok _

/-- a polygon read back successfully is its outer loop (closed, well-formed), without holes -/
theorem poly_deserialize_ok (data : Json α) (pg : Polygon α) (h : Polygon.deserialize data = .ok pg) :
    ∃ r, Loop.deserialize data = .ok r ∧ pg.outer = r ∧ pg.inner = [] ∧ pg.area = r.area ∧ pg.normal = r.normal := by
  unfold Polygon.deserialize at h
  cases hd : Loop.deserialize data with
  | err e => rw [hd] at h; simp only [bind, Res.bind] at h; cases h
  | panic q => rw [hd] at h; simp only [bind, Res.bind] at h; cases h
  | ok r =>
    obtain ⟨hc, _, _⟩ := deserialize_ok_wellformed data r hd
    rw [hd] at h
    simp only [bind, Res.bind, Polygon.ofLoop, Loop.areaR, hc, Bool.not_true, Bool.false_eq_true, if_false] at h
    cases h
    exact ⟨r, rfl, rfl, rfl, rfl, rfl⟩

end G3d.C20
