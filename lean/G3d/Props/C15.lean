import G3d.Proofs.TransformReal
import G3d.Model.BBox
/-!
# C15 — bounding boxes bound (box algebra and transformed boxes; exact semantics)

Box construction only compares and selects coordinates, so the statements below (over ℝ) hold verbatim for
non-NaN floats (comparisons of floats are exact).  `bbox_contains_image` is the statement that the box built from
the images of the 8 corners contains the image of every point of the box (an affine coordinate function on a box is
extremal at a corner); dropping one corner from `transform_bbox` breaks its proof.
Primitive bounds (triangle / sphere / cylinder) and world bounds are in `Props/C15b.lean`.
-/
namespace G3d.C15
open G3d Num

/-- the point `p` lies in the (closed) box `b` -/
def Contains (b : BBox ℝ) (p : V3 ℝ) : Prop :=
  b.min.x ≤ p.x ∧ p.x ≤ b.max.x ∧ b.min.y ≤ p.y ∧ p.y ≤ b.max.y ∧ b.min.z ≤ p.z ∧ p.z ≤ b.max.z

/-- min ≤ max in every coordinate -/
def WF (b : BBox ℝ) : Prop := b.min.x ≤ b.max.x ∧ b.min.y ≤ b.max.y ∧ b.min.z ≤ b.max.z

theorem swapGt_fst (a b : ℝ) : (swapGt a b).1 = min a b := by
  unfold swapGt; by_cases h : b < a <;> simp [h, min_def, le_of_lt]
theorem swapGt_snd (a b : ℝ) : (swapGt a b).2 = max a b := by
  unfold swapGt; by_cases h : b < a <;> simp [h, max_def, le_of_lt]

theorem pointInside_iff (b : BBox ℝ) (p : V3 ℝ) : b.pointInside p = true ↔ Contains b p := by
  simp [BBox.pointInside, Contains, and_assoc]

theorem pointInsideExclusive_iff (b : BBox ℝ) (p : V3 ℝ) :
    b.pointInsideExclusive p = true ↔
      (b.min.x ≤ p.x ∧ p.x < b.max.x ∧ b.min.y ≤ p.y ∧ p.y < b.max.y ∧ b.min.z ≤ p.z ∧ p.z < b.max.z) := by
  simp [BBox.pointInsideExclusive, and_assoc]

theorem new_normalises (a b : V3 ℝ) :
    WF (BBox.new a b) ∧ Contains (BBox.new a b) a ∧ Contains (BBox.new a b) b := by
  simp only [WF, Contains, BBox.new, swapGt_fst, swapGt_snd]
  refine ⟨⟨?_, ?_, ?_⟩, ⟨?_, ?_, ?_, ?_, ?_, ?_⟩, ⟨?_, ?_, ?_, ?_, ?_, ?_⟩⟩ <;>
    first | exact min_le_max | exact min_le_left _ _ | exact min_le_right _ _ | exact le_max_left _ _ | exact le_max_right _ _

theorem fromPoint_contains (p : V3 ℝ) : Contains (BBox.fromPoint p) p := by
  simp [Contains, BBox.fromPoint]

theorem unionPoint_contains_box {b : BBox ℝ} {p : V3 ℝ} (q : V3 ℝ) (h : Contains b p) :
    Contains (b.fromUnionPoint q) p := by
  obtain ⟨h1, h2, h3, h4, h5, h6⟩ := h
  simp only [Contains, BBox.fromUnionPoint, swapGt_fst, swapGt_snd]
  exact ⟨le_trans (min_le_left _ _) h1, le_trans h2 (le_max_left _ _), le_trans (min_le_left _ _) h3,
    le_trans h4 (le_max_left _ _), le_trans (min_le_left _ _) h5, le_trans h6 (le_max_left _ _)⟩

theorem unionPoint_contains_point (b : BBox ℝ) (q : V3 ℝ) : Contains (b.fromUnionPoint q) q := by
  simp only [Contains, BBox.fromUnionPoint, swapGt_fst, swapGt_snd]
  exact ⟨min_le_right _ _, le_max_right _ _, min_le_right _ _, le_max_right _ _, min_le_right _ _, le_max_right _ _⟩

theorem union_contains_both {a b : BBox ℝ} {p : V3 ℝ} (h : Contains a p ∨ Contains b p) :
    Contains (a.fromUnion b) p := by
  simp only [Contains, BBox.fromUnion, swapGt_fst, swapGt_snd]
  rcases h with ⟨h1, h2, h3, h4, h5, h6⟩ | ⟨h1, h2, h3, h4, h5, h6⟩
  · exact ⟨le_trans (min_le_left _ _) h1, le_trans h2 (le_max_left _ _), le_trans (min_le_left _ _) h3,
      le_trans h4 (le_max_left _ _), le_trans (min_le_left _ _) h5, le_trans h6 (le_max_left _ _)⟩
  · exact ⟨le_trans (min_le_right _ _) h1, le_trans h2 (le_max_right _ _), le_trans (min_le_right _ _) h3,
      le_trans h4 (le_max_right _ _), le_trans (min_le_right _ _) h5, le_trans h6 (le_max_right _ _)⟩

/-- the intersection box is exactly the set of common points -/
theorem inter_contains_iff (a b : BBox ℝ) (p : V3 ℝ) :
    Contains (a.fromIntersection b) p ↔ Contains a p ∧ Contains b p := by
  simp only [Contains, BBox.fromIntersection, swapGt_fst, swapGt_snd, max_le_iff, le_min_iff]
  tauto

theorem inter_subset_both {a b : BBox ℝ} {p : V3 ℝ} (h : Contains (a.fromIntersection b) p) :
    Contains a p ∧ Contains b p := (inter_contains_iff a b p).1 h

theorem overlaps_symm (a b : BBox ℝ) : a.overlaps b = b.overlaps a := by
  simp only [BBox.overlaps, Num.ge]
  rw [Bool.eq_iff_iff]; simp; tauto

/-- overlap agrees with the existence of a common point (for well-formed boxes) -/
theorem overlaps_iff_common_point {a b : BBox ℝ} (ha : WF a) (hb : WF b) :
    a.overlaps b = true ↔ ∃ p, Contains a p ∧ Contains b p := by
  obtain ⟨a1, a2, a3⟩ := ha
  obtain ⟨b1, b2, b3⟩ := hb
  simp only [BBox.overlaps, Bool.and_eq_true, real_ge, real_le]
  constructor
  · rintro ⟨⟨⟨x1, x2⟩, y1, y2⟩, z1, z2⟩
    refine ⟨⟨max a.min.x b.min.x, max a.min.y b.min.y, max a.min.z b.min.z⟩, ?_, ?_⟩ <;>
      simp only [Contains] <;>
      refine ⟨?_, ?_, ?_, ?_, ?_, ?_⟩ <;>
      first | exact le_max_left _ _ | exact le_max_right _ _ | exact max_le (by assumption) (by assumption)
  · rintro ⟨p, ⟨h1, h2, h3, h4, h5, h6⟩, ⟨g1, g2, g3, g4, g5, g6⟩⟩
    exact ⟨⟨⟨by linarith, by linarith⟩, by linarith, by linarith⟩, by linarith, by linarith⟩

/-! ## transformed boxes -/

/-- an affine function of three variables on a box lies between its values at the corners -/
theorem affine_box {a b c d x0 x1 y0 y1 z0 z1 x y z lo hi : ℝ}
    (hx0 : x0 ≤ x) (hx1 : x ≤ x1) (hy0 : y0 ≤ y) (hy1 : y ≤ y1) (hz0 : z0 ≤ z) (hz1 : z ≤ z1)
    (hlo : ∀ cx ∈ ({x0, x1} : Set ℝ), ∀ cy ∈ ({y0, y1} : Set ℝ), ∀ cz ∈ ({z0, z1} : Set ℝ), lo ≤ a * cx + b * cy + c * cz + d)
    (hhi : ∀ cx ∈ ({x0, x1} : Set ℝ), ∀ cy ∈ ({y0, y1} : Set ℝ), ∀ cz ∈ ({z0, z1} : Set ℝ), a * cx + b * cy + c * cz + d ≤ hi) :
    lo ≤ a * x + b * y + c * z + d ∧ a * x + b * y + c * z + d ≤ hi := by
  have px : ∃ cx ∈ ({x0, x1} : Set ℝ), a * cx ≤ a * x := by
    by_cases h : 0 ≤ a
    · exact ⟨x0, by simp, by nlinarith⟩
    · exact ⟨x1, by simp, by nlinarith⟩
  have py : ∃ cy ∈ ({y0, y1} : Set ℝ), b * cy ≤ b * y := by
    by_cases h : 0 ≤ b
    · exact ⟨y0, by simp, by nlinarith⟩
    · exact ⟨y1, by simp, by nlinarith⟩
  have pz : ∃ cz ∈ ({z0, z1} : Set ℝ), c * cz ≤ c * z := by
    by_cases h : 0 ≤ c
    · exact ⟨z0, by simp, by nlinarith⟩
    · exact ⟨z1, by simp, by nlinarith⟩
  have qx : ∃ cx ∈ ({x0, x1} : Set ℝ), a * x ≤ a * cx := by
    by_cases h : 0 ≤ a
    · exact ⟨x1, by simp, by nlinarith⟩
    · exact ⟨x0, by simp, by nlinarith⟩
  have qy : ∃ cy ∈ ({y0, y1} : Set ℝ), b * y ≤ b * cy := by
    by_cases h : 0 ≤ b
    · exact ⟨y1, by simp, by nlinarith⟩
    · exact ⟨y0, by simp, by nlinarith⟩
  have qz : ∃ cz ∈ ({z0, z1} : Set ℝ), c * z ≤ c * cz := by
    by_cases h : 0 ≤ c
    · exact ⟨z1, by simp, by nlinarith⟩
    · exact ⟨z0, by simp, by nlinarith⟩
  obtain ⟨cx, hcx, ex⟩ := px; obtain ⟨cy, hcy, ey⟩ := py; obtain ⟨cz, hcz, ez⟩ := pz
  obtain ⟨dx, hdx, fx⟩ := qx; obtain ⟨dy, hdy, fy⟩ := qy; obtain ⟨dz, hdz, fz⟩ := qz
  constructor
  · have := hlo cx hcx cy hcy cz hcz; linarith
  · have := hhi dx hdx dy hdy dz hdz; linarith

/-- image of a point under an affine matrix (the homogeneous divide is by 1) -/
theorem mulPoint_affine {m : M4 ℝ} (hm : M4.Affine m) (p : V3 ℝ) :
    m.mulPoint p = ⟨m.a00 * p.x + m.a01 * p.y + m.a02 * p.z + m.a03,
                    m.a10 * p.x + m.a11 * p.y + m.a12 * p.z + m.a13,
                    m.a20 * p.x + m.a21 * p.y + m.a22 * p.z + m.a23⟩ := by
  obtain ⟨h0, h1, h2, h3⟩ := hm
  simp only [M4.mulPoint, V3.sdiv, h0, h1, h2, h3]; num_real; simp

/-- **the transformed box contains the image of every point of the box** -/
theorem bbox_contains_image {m : M4 ℝ} (hm : M4.Affine m) {b : BBox ℝ} {p : V3 ℝ} (h : Contains b p) :
    Contains (Transform.bboxWith m b) (m.mulPoint p) := by
  obtain ⟨h1, h2, h3, h4, h5, h6⟩ := h
  -- every corner image lies in the union box
  have corner : ∀ cx ∈ ({b.min.x, b.max.x} : Set ℝ), ∀ cy ∈ ({b.min.y, b.max.y} : Set ℝ),
      ∀ cz ∈ ({b.min.z, b.max.z} : Set ℝ), Contains (Transform.bboxWith m b) (m.mulPoint ⟨cx, cy, cz⟩) := by
    intro cx hcx cy hcy cz hcz
    simp only [Set.mem_insert_iff, Set.mem_singleton_iff] at hcx hcy hcz
    unfold Transform.bboxWith
    rcases hcx with rfl | rfl <;> rcases hcy with rfl | rfl <;> rcases hcz with rfl | rfl
    · exact unionPoint_contains_box _ (unionPoint_contains_box _ (unionPoint_contains_box _ (unionPoint_contains_box _
        (unionPoint_contains_box _ (unionPoint_contains_box _ (unionPoint_contains_box _ (fromPoint_contains _)))))))
    · exact unionPoint_contains_box _ (unionPoint_contains_box _ (unionPoint_contains_box _ (unionPoint_contains_box _
        (unionPoint_contains_point _ _))))
    · exact unionPoint_contains_box _ (unionPoint_contains_box _ (unionPoint_contains_box _ (unionPoint_contains_box _
        (unionPoint_contains_box _ (unionPoint_contains_point _ _)))))
    · exact unionPoint_contains_box _ (unionPoint_contains_box _ (unionPoint_contains_box _ (unionPoint_contains_point _ _)))
    · exact unionPoint_contains_box _ (unionPoint_contains_box _ (unionPoint_contains_box _ (unionPoint_contains_box _
        (unionPoint_contains_box _ (unionPoint_contains_box _ (unionPoint_contains_point _ _))))))
    · exact unionPoint_contains_box _ (unionPoint_contains_point _ _)
    · exact unionPoint_contains_box _ (unionPoint_contains_box _ (unionPoint_contains_point _ _))
    · exact unionPoint_contains_point _ _
  generalize Transform.bboxWith m b = B at corner ⊢
  simp only [mulPoint_affine hm, Contains] at corner ⊢
  have X := affine_box (a := m.a00) (b := m.a01) (c := m.a02) (d := m.a03) h1 h2 h3 h4 h5 h6
    (fun cx hx cy hy cz hz => (corner cx hx cy hy cz hz).1) (fun cx hx cy hy cz hz => (corner cx hx cy hy cz hz).2.1)
  have Y := affine_box (a := m.a10) (b := m.a11) (c := m.a12) (d := m.a13) h1 h2 h3 h4 h5 h6
    (fun cx hx cy hy cz hz => (corner cx hx cy hy cz hz).2.2.1) (fun cx hx cy hy cz hz => (corner cx hx cy hy cz hz).2.2.2.1)
  have Z := affine_box (a := m.a20) (b := m.a21) (c := m.a22) (d := m.a23) h1 h2 h3 h4 h5 h6
    (fun cx hx cy hy cz hz => (corner cx hx cy hy cz hz).2.2.2.2.1) (fun cx hx cy hy cz hz => (corner cx hx cy hy cz hz).2.2.2.2.2)
  exact ⟨X.1, X.2, Y.1, Y.2, Z.1, Z.2⟩

theorem transformBBox_contains_image {t : Transform ℝ} (hm : M4.Affine t.m) {b : BBox ℝ} {p : V3 ℝ}
    (h : Contains b p) : Contains (t.transformBBox b) (t.transformPt p) := bbox_contains_image hm h

theorem invTransformBBox_contains_image {t : Transform ℝ} (hm : M4.Affine t.inv) {b : BBox ℝ} {p : V3 ℝ}
    (h : Contains b p) : Contains (t.invTransformBBox b) (t.invTransformPt p) := bbox_contains_image hm h

end G3d.C15
