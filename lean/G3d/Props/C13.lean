import G3d.Props.C02
import Mathlib.Analysis.SpecialFunctions.Trigonometric.Inverse
/-!
# C13 — surface data at a hit is coherent (exact semantics)

* `side_faces`, `side_flips` — the normal returned by `get_side` never points along the ray, and approaching the same
  surface point from the other side flips both the normal and the reported side.
* `info_normal_perp` — the normal built by `IntersectionInfo::new` is perpendicular to both reported tangents.
* triangles: `tri_normal_perp`, `tri_front_is_rhr`;  disks: `disk_front_is_declared`, `disk_tangents_in_plane`;
  spheres: `sphere_normal_outward` (`dpdv × dpdu` is a positive multiple of the position vector, so "front" is the outside),
  `sphere_tangents_tangent`; cylinders: `cyl_tangents_tangent`, `cyl_cross` (radial).
* `world_normal_perp` — after `info.transform(T)` the normal is still perpendicular to both tangents (inverse transpose),
  for every `T` with a true inverse (C06 `Inv`).
Unit length under rigid transforms is `unit_of_rotation` (rotations preserve dot products, C06).
-/
namespace G3d.C13
open G3d Num C06

noncomputable section

/-- **the reported normal faces the incoming ray** (`n'·d ≤ 0`; it is the zero vector only when `n·d = 0`) -/
theorem side_faces (n d : V3 ℝ) : (getSide n d).1.dot d ≤ 0 := by
  unfold getSide
  simp only []
  split_ifs with h1 h2
  · bool_real_at h1; num_real_at h1; exact le_of_lt h1
  · bool_real_at h2; num_real_at h2
    vec_real; vec_real_at h2; nlinarith
  · vec_real; simp

theorem side_front_iff (n d : V3 ℝ) : (getSide n d).2 = Side.front ↔ n.dot d < 0 := by
  unfold getSide
  simp only []
  split_ifs with h1 h2
  · bool_real_at h1; num_real_at h1; simp [h1]
  · bool_real_at h1; num_real_at h1; simp; linarith
  · bool_real_at h1; num_real_at h1; simp; linarith

theorem side_back_iff (n d : V3 ℝ) : (getSide n d).2 = Side.back ↔ 0 < n.dot d := by
  unfold getSide
  simp only []
  split_ifs with h1 h2
  · bool_real_at h1; num_real_at h1; simp; linarith
  · bool_real_at h2; num_real_at h2; simp [h2]
  · bool_real_at h2; num_real_at h2; simp; linarith

theorem dot_neg_right (n d : V3 ℝ) : n.dot (-d) = -(n.dot d) := by vec_real; ring

theorem getSide_real (n d : V3 ℝ) :
    getSide n d = if n.dot d < 0 then (n, Side.front)
      else if 0 < n.dot d then (n.smul (-1), Side.back) else (⟨0, 0, 0⟩, Side.nonApplicable) := by
  unfold getSide
  simp only [real_lt_dec, real_gt_dec, decide_eq_true_eq]
  num_real

/-- **the same surface point approached from the opposite side: normal and side both flip** -/
theorem side_flips (n d : V3 ℝ) (h : n.dot d ≠ 0) :
    (getSide n (-d)).1 = -(getSide n d).1 ∧
    ((getSide n d).2 = Side.front → (getSide n (-d)).2 = Side.back) ∧
    ((getSide n d).2 = Side.back → (getSide n (-d)).2 = Side.front) := by
  have e := dot_neg_right n d
  rw [getSide_real, getSide_real, e]
  rcases lt_or_gt_of_ne h with hlt | hgt
  · have a1 : ¬ (-(n.dot d) < 0) := by linarith
    have a2 : 0 < -(n.dot d) := by linarith
    simp only [hlt, a1, a2, if_true, if_false]
    refine ⟨?_, fun _ => trivial, fun h => by simp at h⟩
    vec_real; simp
  · have a0 : ¬ (n.dot d < 0) := by linarith
    have a1 : -(n.dot d) < 0 := by linarith
    simp only [a0, hgt, a1, if_true, if_false]
    refine ⟨?_, fun h => by simp at h, fun _ => trivial⟩
    vec_real; simp

/-- whatever `get_side` returns is a real multiple of the input normal -/
theorem side_parallel (n d : V3 ℝ) : ∃ k : ℝ, (getSide n d).1 = n.smul k := by
  unfold getSide
  simp only []
  split_ifs
  · exact ⟨1, by vec_real; simp⟩
  · exact ⟨-1, by vec_real; simp⟩
  · exact ⟨0, by vec_real; simp⟩

theorem normalize_parallel (v : V3 ℝ) : ∃ k : ℝ, v.normalize = v.smul k := ⟨1 / v.length, by vec_real; simp⟩

theorem cross_perp_left (a b : V3 ℝ) : (a.cross b).dot a = 0 := by vec_real; ring
theorem cross_perp_right (a b : V3 ℝ) : (a.cross b).dot b = 0 := by vec_real; ring
theorem smul_dot (a b : V3 ℝ) (k : ℝ) : (a.smul k).dot b = k * a.dot b := by vec_real; ring

theorem smul_smul' (a : V3 ℝ) (k l : ℝ) : (a.smul k).smul l = a.smul (k * l) := by vec_real; refine ⟨?_, ?_, ?_⟩ <;> ring
theorem add_dot (a b c : V3 ℝ) : (a + b).dot c = a.dot c + b.dot c := by vec_real; ring

theorem side_normalize_parallel (w d : V3 ℝ) : ∃ k : ℝ, (getSide w.normalize d).1 = w.smul k := by
  obtain ⟨k1, h1⟩ := side_parallel w.normalize d
  obtain ⟨k2, h2⟩ := normalize_parallel w
  exact ⟨k2 * k1, by rw [h1, h2, smul_smul']⟩

/-- **the normal of `IntersectionInfo::new` is perpendicular to both tangents** -/
theorem info_normal_perp (ray : Ray ℝ) (p : V3 ℝ) (u v : ℝ) (dpdu dpdv a b c : V3 ℝ) :
    (Info.new ray p u v dpdu dpdv a b c).normal.dot dpdu = 0 ∧
    (Info.new ray p u v dpdu dpdv a b c).normal.dot dpdv = 0 := by
  obtain ⟨k, hk⟩ := side_normalize_parallel (dpdv.cross dpdu) ray.direction
  simp only [Info.new]
  rw [hk, smul_dot, smul_dot, cross_perp_left, cross_perp_right]
  simp

/-- … and it faces the ray -/
theorem info_normal_faces (ray : Ray ℝ) (p : V3 ℝ) (u v : ℝ) (dpdu dpdv a b c : V3 ℝ) :
    (Info.new ray p u v dpdu dpdv a b c).normal.dot ray.direction ≤ 0 := side_faces _ _

/-! ## triangles -/

theorem tri_normal_perp {t : TriV ℝ} {ray : Ray ℝ} {oe de : V3 ℝ} {i : Info ℝ}
    (h : t.intersectLocalRay ray oe de = some i) :
    i.normal.dot (t.b - t.a) = 0 ∧ i.normal.dot (t.c - t.a) = 0 ∧ i.normal.dot ray.direction ≤ 0 ∧
    i.dpdu = t.b - t.a ∧ i.dpdv = t.c - t.a := by
  unfold TriV.intersectLocalRay at h
  split at h
  · exact absurd h (by simp)
  · simp only [Option.some.injEq] at h
    subst h
    obtain ⟨k, hk⟩ := side_normalize_parallel ((t.b - t.a).cross (t.c - t.a)) ray.direction
    refine ⟨?_, ?_, side_faces _ _, rfl, rfl⟩
    · show (getSide _ _).1.dot _ = 0
      rw [hk, smul_dot, cross_perp_left, mul_zero]
    · show (getSide _ _).1.dot _ = 0
      rw [hk, smul_dot, cross_perp_right, mul_zero]

/-- **for a triangle "front" is the side its right-hand-rule normal `(b−a)×(c−a)` points to** -/
theorem tri_front_is_rhr {t : TriV ℝ} {ray : Ray ℝ} {oe de : V3 ℝ} {i : Info ℝ}
    (h : t.intersectLocalRay ray oe de = some i) (hn : 0 < ((t.b - t.a).cross (t.c - t.a)).length) :
    (i.side = Side.front ↔ ((t.b - t.a).cross (t.c - t.a)).dot ray.direction < 0) := by
  unfold TriV.intersectLocalRay at h
  split at h
  · exact absurd h (by simp)
  · simp only [Option.some.injEq] at h
    subst h
    rw [side_front_iff]
    have hk : ((t.b - t.a).cross (t.c - t.a)).normalize
        = ((t.b - t.a).cross (t.c - t.a)).smul (1 / ((t.b - t.a).cross (t.c - t.a)).length) := by
      vec_real; simp
    rw [hk, smul_dot]
    have : 0 < 1 / ((t.b - t.a).cross (t.c - t.a)).length := by positivity
    constructor
    · intro h; by_contra hc; push_neg at hc; nlinarith
    · intro h; nlinarith

/-! ## disks -/

/-- **for a disk "front" is the side of its declared (stored) normal** -/
theorem disk_front_is_declared {s : Disk ℝ} {ray : Ray ℝ} {phit : V3 ℝ} {phi : ℝ} {i : Info ℝ}
    (h : s.intersectionInfo ray phit phi = some i) :
    (i.side = Side.front ↔ s.normal.dot ray.direction < 0) ∧ i.normal.dot ray.direction ≤ 0 ∧
    ∃ k : ℝ, i.normal = s.normal.smul k := by
  unfold Disk.intersectionInfo at h
  simp only [Option.some.injEq] at h
  subst h
  exact ⟨side_front_iff _ _, side_faces _ _, side_parallel _ _⟩

/-- both disk tangents lie in the disk's plane when `phi_zero ⟂ normal` (which the constructor establishes) -/
theorem disk_tangents_in_plane {s : Disk ℝ} {ray : Ray ℝ} {phit : V3 ℝ} {phi : ℝ} {i : Info ℝ}
    (h : s.intersectionInfo ray phit phi = some i) (hperp : s.phiZero.dot s.normal = 0) :
    i.dpdu.dot s.normal = 0 ∧ i.dpdv.dot s.normal = 0 := by
  unfold Disk.intersectionInfo at h
  simp only [Option.some.injEq] at h
  subst h
  have z : (s.phiZero.cross s.normal).dot s.normal = 0 := cross_perp_right _ _
  simp only [add_dot, smul_dot, hperp, z, mul_zero, add_zero, and_self]

/-! ## spheres and cylinders -/

/-- **sphere: `dpdv × dpdu` is a positive multiple of the position vector**, so the un-flipped normal is the outward one
    and "front" is the outside. `ρ = √(x²+y²)`; valid wherever the hit is on the sphere and off the polar axis. -/
theorem sphere_cross_outward {x y z r dth pm : ℝ} (hr : 0 < r) (hs : x * x + y * y + z * z = r * r)
    (hρ : 0 < Real.sqrt (x * x + y * y)) :
    let ρ := Real.sqrt (x * x + y * y)
    let sinT := Real.sin (Real.arccos (z / r))
    let dpdu : V3 ℝ := ⟨-pm * y, pm * x, 0⟩
    let dpdv : V3 ℝ := (V3.mk (z * (x * (1 / ρ))) (z * (y * (1 / ρ))) (-r * sinT)).smul dth
    dpdv.cross dpdu = (V3.mk x y z).smul (dth * pm * ρ) := by
  intro ρ sinT dpdu dpdv
  have hρ2 : ρ * ρ = x * x + y * y := Real.mul_self_sqrt (by nlinarith [mul_self_nonneg x, mul_self_nonneg y])
  have hzr : (z / r) ^ 2 ≤ 1 := by
    rw [div_pow, div_le_one (by positivity)]; nlinarith [mul_self_nonneg x, mul_self_nonneg y]
  have hsin : sinT = ρ / r := by
    simp only [sinT, Real.sin_arccos]
    rw [show (1 - (z / r) ^ 2) = (ρ / r) ^ 2 by field_simp; nlinarith]
    exact Real.sqrt_sq (by positivity)
  have hne : ρ ≠ 0 := ne_of_gt hρ
  have hρ2' : ρ ^ 2 = x ^ 2 + y ^ 2 := by nlinarith
  simp only [dpdu, dpdv, hsin]
  vec_real
  refine ⟨?_, ?_, ?_⟩ <;> field_simp <;>
    first
    | ring1
    | linear_combination (z * dth * pm) * hρ2'
    | linear_combination (-(z * dth * pm)) * hρ2'
    | nlinarith

/-- sphere tangents are tangent: both are perpendicular to the position vector of a point on the sphere -/
theorem sphere_tangents_tangent {x y z r dth pm : ℝ} (hr : 0 < r) (hs : x * x + y * y + z * z = r * r)
    (hρ : 0 < Real.sqrt (x * x + y * y)) :
    let ρ := Real.sqrt (x * x + y * y)
    let sinT := Real.sin (Real.arccos (z / r))
    let dpdu : V3 ℝ := ⟨-pm * y, pm * x, 0⟩
    let dpdv : V3 ℝ := (V3.mk (z * (x * (1 / ρ))) (z * (y * (1 / ρ))) (-r * sinT)).smul dth
    dpdu.dot ⟨x, y, z⟩ = 0 ∧ dpdv.dot ⟨x, y, z⟩ = 0 := by
  intro ρ sinT dpdu dpdv
  have hρ2 : ρ * ρ = x * x + y * y := Real.mul_self_sqrt (by nlinarith [mul_self_nonneg x, mul_self_nonneg y])
  have hzr : (z / r) ^ 2 ≤ 1 := by
    rw [div_pow, div_le_one (by positivity)]; nlinarith [mul_self_nonneg x, mul_self_nonneg y]
  have hsin : sinT = ρ / r := by
    simp only [sinT, Real.sin_arccos]
    rw [show (1 - (z / r) ^ 2) = (ρ / r) ^ 2 by field_simp; nlinarith]
    exact Real.sqrt_sq (by positivity)
  have hne : ρ ≠ 0 := ne_of_gt hρ
  have hρ2' : ρ ^ 2 = x ^ 2 + y ^ 2 := by nlinarith
  simp only [dpdu, dpdv, hsin]
  vec_real
  constructor
  · ring
  · field_simp
    first
    | ring1
    | linear_combination (z * dth) * hρ2'
    | linear_combination (-(z * dth)) * hρ2'

/-- cylinder: both tangents are perpendicular to the radial direction `(x, y, 0)`, and `dpdv × dpdu` is radial -/
theorem cyl_tangents_tangent (x y pm h : ℝ) :
    let dpdu : V3 ℝ := ⟨-pm * y, pm * x, 0⟩
    let dpdv : V3 ℝ := ⟨0, 0, h⟩
    dpdu.dot ⟨x, y, 0⟩ = 0 ∧ dpdv.dot ⟨x, y, 0⟩ = 0 ∧ dpdv.cross dpdu = (V3.mk x y 0).smul (-(h * pm)) := by
  intro dpdu dpdv
  simp only [dpdu, dpdv]
  vec_real
  refine ⟨by ring, by ring, by ring, by ring, by ring⟩

/-! ## world space -/

/-- **after `info.transform(T)` the normal is still perpendicular to both tangents** -/
theorem world_normal_perp {t : Transform ℝ} (ht : Inv t) {i : Info ℝ}
    (h1 : i.normal.dot i.dpdu = 0) (h2 : i.normal.dot i.dpdv = 0) :
    (i.transform t).normal.dot (i.transform t).dpdu = 0 ∧ (i.transform t).normal.dot (i.transform t).dpdv = 0 := by
  simp only [Info.transform]
  exact ⟨by rw [normal_perp ht]; exact h1, by rw [normal_perp ht]; exact h2⟩

/-- the side label is carried unchanged to world space -/
theorem world_side (t : Transform ℝ) (i : Info ℝ) : (i.transform t).side = i.side := rfl

/-- unit length is kept by the rotations (they preserve dot products), hence by every rigid chain -/
theorem unit_of_rotation {c s : ℝ} (h : c ^ 2 + s ^ 2 = 1) (n : V3 ℝ) (hn : n.dot n = 1) :
    ((Transform.rotZcs c s).transformVec n).dot ((Transform.rotZcs c s).transformVec n) = 1 := by
  rw [rotZ_dot h]; exact hn

/-- **the world normal still faces the world ray**: `n_w · d_w = n · d` for an object transform with a true inverse, so a local
    normal that faces the local ray (`side_faces`) faces the world ray after `info.transform(T)`, `Transform::ray` having sent the
    direction through the same `T`; and the front/back decision (sign of `n · d`) is the same in both spaces -/
theorem world_normal_dot {t : Transform ℝ} (ht : Inv t) (i : Info ℝ) (d : V3 ℝ) :
    (i.transform t).normal.dot (t.transformVec d) = i.normal.dot d := by
  simp only [Info.transform]; exact normal_perp ht _ _

theorem world_normal_faces {t : Transform ℝ} (ht : Inv t) (i : Info ℝ) (d : V3 ℝ) (h : i.normal.dot d ≤ 0) :
    (i.transform t).normal.dot (t.transformVec d) ≤ 0 := by
  rw [world_normal_dot ht]; exact h

/-- the same through the inverse (`inv_transform` of a world-space record with a world-space direction) -/
theorem local_normal_dot {t : Transform ℝ} (ht : Inv t) (i : Info ℝ) (d : V3 ℝ) :
    (i.invTransform t).normal.dot (t.invTransformVec d) = i.normal.dot d := by
  have key : ∀ (a : M4 ℝ) (n w : V3 ℝ), (a.mulNormalT n).dot w = n.dot (a.mulVec w) := by
    intro a n w; simp only [M4.mulNormalT, M4.mulVec, V3.dot]; num_real; ring
  show (t.m.mulNormalT i.normal).dot (t.inv.mulVec d) = _
  rw [key, ← mulVec_mul _ ht.2.2.2, ht.1, mulVec_identity]

/-- the side found from world data agrees with the side found from local data -/
theorem side_same_in_both_spaces {t : Transform ℝ} (ht : Inv t) (n d : V3 ℝ) :
    (getSide (t.transformNormal n) (t.transformVec d)).2 = (getSide n d).2 := by
  have e : (t.transformNormal n).dot (t.transformVec d) = n.dot d := normal_perp ht n d
  rcases lt_trichotomy (n.dot d) 0 with h | h | h
  · rw [(side_front_iff _ _).2 (by rw [e]; exact h), (side_front_iff _ _).2 h]
  · have a := getSide_real n d
    have b := getSide_real (t.transformNormal n) (t.transformVec d)
    rw [e] at b
    rw [a, b, h]; simp
  · rw [(side_back_iff _ _).2 (by rw [e]; exact h), (side_back_iff _ _).2 h]

end
end G3d.C13
