import G3d.Props.C04
import G3d.Proofs.Shoelace
/-!
# C10 — area, perimeter, normal and centroid of a closed loop (exact semantics)

* `setArea_real` — over ℝ, `set_area` stores `|n · V|` where `V = ½ Σ vᵢ × vᵢ₊₁` is the outline's vector area
  (`Shoelace.cyc`/2) and `n` the cached normal, and orients the stored normal so that `n · V ≥ 0` (right-hand rule with
  respect to the stored vertex order: `normal_rhr`).  For a planar outline (`V` parallel to the unit normal) this is the
  polygon's area `|V|` (`area_of_planar`).
* `area_start_vertex`, `area_reversal`, `area_translation`, `area_collinear_point` — the vector area does not depend on the
  start vertex, changes sign under reversal, is invariant under translation and under inserting a redundant collinear point
  (`Shoelace`), hence so does the area (`|n · V|` with the correspondingly carried normal).
* `setNormal_unit_perp` — the normal cached at the third vertex is a unit vector perpendicular to the first two edges.
* `setPerimeter_real` — the perimeter is the sum of the edge lengths `Σ |vᵢ − vᵢ₊₁|`.
* `centroid_real` — the centroid is the mean of the vertices.
-/
namespace G3d.C10
open G3d Num C04 Shoelace

noncomputable section

/-- the vertex the `for i in 2..n+2` loop of `set_area` fetches at index `i` -/
def fetch (vs : List (V3 ℝ)) (i : Nat) : V3 ℝ := vs.getD (i % vs.length) ⟨0, 0, 0⟩

theorem vget_mod (vs : List (V3 ℝ)) (hpos : 0 < vs.length) (i : Nat) (site : String) :
    vget vs (i % vs.length) site = .ok (fetch vs i) := by
  have h : i % vs.length < vs.length := Nat.mod_lt _ hpos
  rw [vget_lt h]
  simp [fetch, List.getD_eq_getElem?_getD, List.getElem?_eq_getElem h]

/-- the sliding window of `set_area`: after `fuel` iterations from `(i, rhs, v, w)` the accumulator holds
    `rhs + pathSum` of `v, w` followed by all fetched vertices but the last -/
theorem setAreaLoop_real (vs : List (V3 ℝ)) (hpos : 0 < vs.length) :
    ∀ (fuel i : Nat) (rhs v w : V3 ℝ),
      Loop.setAreaLoop vs vs.length fuel i rhs v w =
        .ok (rhs + pathSum ((v :: w :: (List.range fuel).map (fun k => fetch vs (i + k))).dropLast)) := by
  intro fuel
  induction fuel with
  | zero => intro i rhs v w; simp [Loop.setAreaLoop, add_zero']
  | succ f ih =>
    intro i rhs v w
    simp only [Loop.setAreaLoop, vget_mod vs hpos, bind, Res.bind]
    rw [ih (i + 1) (rhs + v.cross w) w (fetch vs i)]
    congr 1
    have hr : (List.range (f + 1)).map (fun k => fetch vs (i + k))
        = fetch vs i :: (List.range f).map (fun k => fetch vs (i + 1 + k)) := by
      rw [List.range_succ_eq_map]
      simp only [List.map_cons, List.map_map, Nat.add_zero]
      congr 1
      apply List.map_congr_left
      intro k _
      simp only [Function.comp]
      congr 1; omega
    rw [hr]
    have hd : (v :: w :: fetch vs i :: (List.range f).map (fun k => fetch vs (i + 1 + k))).dropLast
        = v :: (w :: fetch vs i :: (List.range f).map (fun k => fetch vs (i + 1 + k))).dropLast := by
      simp [List.dropLast]
    rw [hd]
    have hne : (w :: fetch vs i :: (List.range f).map (fun k => fetch vs (i + 1 + k))).dropLast
        = w :: (fetch vs i :: (List.range f).map (fun k => fetch vs (i + 1 + k))).dropLast := by
      simp [List.dropLast]
    rw [hne, pathSum_cons2, ← hne, add_assoc']

/-- the window of a whole pass is the closed outline -/
theorem window_eq (vs : List (V3 ℝ)) (h3 : 3 ≤ vs.length) :
    (vs[0] :: vs[1] :: (List.range vs.length).map (fun k => fetch vs (2 + k))).dropLast = vs ++ [vs[0]] := by
  apply List.ext_getElem
  · simp
  · intro j h1 h2
    simp only [List.length_dropLast, List.length_cons, List.length_map, List.length_range] at h1
    rw [List.getElem_dropLast]
    by_cases hj0 : j = 0
    · subst hj0; simp [List.getElem_append_left (show 0 < vs.length by omega)]
    · by_cases hj1 : j = 1
      · subst hj1; simp [List.getElem_append_left (show 1 < vs.length by omega)]
      · have hj : 2 ≤ j := by omega
        obtain ⟨m, rfl⟩ : ∃ m, j = m + 2 := ⟨j - 2, by omega⟩
        simp only [List.getElem_cons_succ, List.getElem_map, List.getElem_range]
        by_cases hlast : m + 2 < vs.length
        · rw [List.getElem_append_left hlast]
          simp [fetch, List.getD_eq_getElem?_getD, show (2 + m) % vs.length = m + 2 by rw [Nat.mod_eq_of_lt (by omega)]; omega,
            List.getElem?_eq_getElem hlast]
        · have hm : m + 2 = vs.length := by omega
          rw [List.getElem_append_right (by omega)]
          simp [fetch, List.getD_eq_getElem?_getD, show (2 + m) % vs.length = 0 by rw [show 2 + m = vs.length by omega]; exact Nat.mod_self _,
            hm, List.getElem?_eq_getElem (show 0 < vs.length by omega)]

theorem zero_sci_add (v : V3 ℝ) : (⟨0.0, 0.0, 0.0⟩ : V3 ℝ) + v = v := by
  apply V3.ext' <;> simp only [V3.add_def] <;> num_real <;> norm_num

theorem lengthSquared_nonneg (v : V3 ℝ) : 0 ≤ v.lengthSquared := by
  unfold V3.lengthSquared; num_real
  nlinarith [mul_self_nonneg v.x, mul_self_nonneg v.y, mul_self_nonneg v.z]

theorem cyc_eq (vs : List (V3 ℝ)) (h : 0 < vs.length) : cyc vs = pathSum (vs ++ [vs[0]]) := by
  cases vs with
  | nil => simp at h
  | cons a t => rfl

/-- **what `set_area` stores, over ℝ**: with `V2 = Σ vᵢ × vᵢ₊₁` (twice the vector area), area `|n · V2 / 2|`, and the normal
    flipped when `n · V2 / 2 < 0` -/
theorem setArea_real (l : Loop ℝ) (hc : l.closed = true) (hz : l.normal.isZero = false) (h3 : 3 ≤ l.vertices.length) :
    l.setArea = ({ l with normal := if l.normal.dot (cyc l.vertices) / 2 < 0 then l.normal.smul (-1) else l.normal,
                          area := |l.normal.dot (cyc l.vertices) / 2| },
                 .ok |l.normal.dot (cyc l.vertices) / 2|) := by
  unfold Loop.setArea
  have hn : ¬ l.vertices.length < 3 := by omega
  have hl0 : 0 < l.vertices.length := by omega
  have hl1 : 1 < l.vertices.length := by omega
  simp only [hc, Bool.not_true, Bool.false_eq_true, if_false, hz, hn, vget_lt hl0, vget_lt hl1, bind, Res.bind]
  rw [setAreaLoop_real l.vertices hl0, window_eq l.vertices h3, ← cyc_eq l.vertices hl0]
  num_real
  rw [zero_sci_add]
  simp only [real_lt_dec, decide_eq_true_eq]
  norm_num

/-- **right-hand rule**: after `set_area` the stored normal has a non-negative component along the vector area -/
theorem normal_rhr (l : Loop ℝ) (hc : l.closed = true) (hz : l.normal.isZero = false) (h3 : 3 ≤ l.vertices.length) :
    0 ≤ l.setArea.1.normal.dot (cyc l.vertices) := by
  rw [setArea_real l hc hz h3]
  simp only []
  split_ifs with h
  · vec_real; vec_real_at h; linarith
  · exact (by linarith [not_lt.mp h] : (0:ℝ) ≤ _)

/-- for a planar outline (vector area parallel to the unit normal) the stored area is the polygon's area `|V|` -/
theorem area_of_planar (n V2 : V3 ℝ) (c : ℝ) (hn : n.lengthSquared = 1) (hV : V2 = n.smul c) :
    |n.dot V2 / 2| = V2.length / 2 := by
  subst hV
  have h1 : n.dot (n.smul c) = c := by
    have : n.dot (n.smul c) = c * n.lengthSquared := by vec_real; ring
    rw [this, hn, mul_one]
  have h2 : (n.smul c).length = |c| := by
    have : (n.smul c).lengthSquared = c ^ 2 * n.lengthSquared := by vec_real; ring
    simp only [V3.length, real_sqrt, this, hn, mul_one, Real.sqrt_sq_eq_abs]
  rw [h1, h2, abs_div]; norm_num

/-! ## invariances of the vector area (hence of the area) -/

/-- **start vertex** -/
theorem area_start_vertex (vs : List (V3 ℝ)) (k : Nat) (n : V3 ℝ) :
    |n.dot (cyc (vs.rotate k)) / 2| = |n.dot (cyc vs) / 2| := by rw [cyc_rotate_n]

/-- **reversing the vertex order only flips the vector area** (so the area is the same and the oriented normal flips) -/
theorem area_reversal (vs : List (V3 ℝ)) (n : V3 ℝ) :
    cyc vs.reverse = -(cyc vs) ∧ |n.dot (cyc vs.reverse) / 2| = |n.dot (cyc vs) / 2| := by
  refine ⟨cyc_reverse vs, ?_⟩
  rw [cyc_reverse]
  have : n.dot (-(cyc vs)) = -(n.dot (cyc vs)) := by vec_real; ring
  rw [this, neg_div, abs_neg]

/-- **translation** -/
theorem area_translation (vs : List (V3 ℝ)) (t n : V3 ℝ) :
    |n.dot (cyc (vs.map (· + t))) / 2| = |n.dot (cyc vs) / 2| := by rw [cyc_translate]

/-- **a redundant collinear point** anywhere in the outline (here: between the first two vertices of a rotation) -/
theorem area_collinear_point (a b : V3 ℝ) (rest : List (V3 ℝ)) (s : ℝ) :
    cyc (a :: (a + (b - a).smul s) :: b :: rest) = cyc (a :: b :: rest) := by
  show pathSum (a :: (a + (b - a).smul s) :: b :: rest ++ [a]) = pathSum (a :: b :: rest ++ [a])
  have := pathSum_insert_collinear [] (rest ++ [a]) a b s
  simpa using this

/-! ## normal, perimeter, centroid -/

/-- `normalize` of a non-zero vector is a unit vector with the same perpendiculars -/
theorem normalize_spec (X : V3 ℝ) (hx : X.lengthSquared ≠ 0) :
    X.normalize.lengthSquared = 1 ∧ ∀ u : V3 ℝ, X.dot u = 0 → X.normalize.dot u = 0 := by
  have hpos : 0 < X.lengthSquared := lt_of_le_of_ne (lengthSquared_nonneg X) (Ne.symm hx)
  obtain ⟨L, hL⟩ : ∃ L, L = Real.sqrt X.lengthSquared := ⟨_, rfl⟩
  have hs : L ≠ 0 := by rw [hL]; exact (Real.sqrt_pos.mpr hpos).ne'
  have hsq : L ^ 2 = X.lengthSquared := by rw [hL]; exact Real.sq_sqrt hpos.le
  have e : X.normalize = ⟨X.x * (1 / L), X.y * (1 / L), X.z * (1 / L)⟩ := by
    simp only [V3.normalize, V3.length, real_sqrt, ← hL]; num_real
  rw [e]
  refine ⟨?_, ?_⟩
  · have : (⟨X.x * (1 / L), X.y * (1 / L), X.z * (1 / L)⟩ : V3 ℝ).lengthSquared = X.lengthSquared * (1 / L) ^ 2 := by
      simp only [V3.lengthSquared]; num_real; ring
    rw [this, ← hsq]; field_simp
  · intro u hu
    have : (⟨X.x * (1 / L), X.y * (1 / L), X.z * (1 / L)⟩ : V3 ℝ).dot u = X.dot u * (1 / L) := by
      simp only [V3.dot]; num_real; ring
    rw [this, hu, zero_mul]

/-- **the cached normal is a unit vector perpendicular to the first two edges** (when they are not parallel) -/
theorem setNormal_unit_perp (a b c : V3 ℝ) (hx : ((b - a).cross (c - b)).lengthSquared ≠ 0) :
    let n := ((b - a).cross (c - b)).normalize
    n.lengthSquared = 1 ∧ n.dot (b - a) = 0 ∧ n.dot (c - b) = 0 := by
  intro n
  obtain ⟨h1, h2⟩ := normalize_spec _ hx
  refine ⟨h1, h2 _ ?_, h2 _ ?_⟩
  · vec_real; ring
  · vec_real; ring

/-- `set_normal` caches exactly that vector -/
theorem setNormal_eq (l : Loop ℝ) (a b c : V3 ℝ) (rest : List (V3 ℝ)) (hv : l.vertices = a :: b :: c :: rest) :
    l.setNormal = ({ l with normal := ((b - a).cross (c - b)).normalize }, .ok ()) := by
  unfold Loop.setNormal; rw [hv]

/-- **the perimeter is the sum of the edge lengths** `|vᵢ − vᵢ₊₁|`, `i = 0..n−1` (indices mod `n`) -/
theorem setPerimeterLoop_real (vs : List (V3 ℝ)) (hpos : 0 < vs.length) :
    ∀ (fuel i : Nat) (per : ℝ),
      Loop.setPerimeterLoop vs vs.length fuel i per =
        .ok (per + ((List.range fuel).map (fun k => (fetch vs (i + k) - fetch vs (i + k + 1)).length)).sum) := by
  intro fuel
  induction fuel with
  | zero => intro i per; simp [Loop.setPerimeterLoop]
  | succ f ih =>
    intro i per
    simp only [Loop.setPerimeterLoop, vget_mod vs hpos, bind, Res.bind]
    rw [ih (i + 1)]
    congr 1
    rw [List.range_succ_eq_map]
    simp only [List.map_cons, List.map_map, List.sum_cons, Nat.add_zero]
    have : ((List.range f).map (fun k => (fetch vs (i + 1 + k) - fetch vs (i + 1 + k + 1)).length))
        = ((List.range f).map ((fun k => (fetch vs (i + k) - fetch vs (i + k + 1)).length) ∘ Nat.succ)) := by
      apply List.map_congr_left
      intro k _
      simp only [Function.comp]
      rw [show i + 1 + k = i + k.succ by omega]
    rw [this]
    num_real
    ring

theorem setPerimeter_real (l : Loop ℝ) (hc : l.closed = true) (hz : l.normal.isZero = false) (h3 : 3 ≤ l.vertices.length) :
    l.setPerimeter.2 = .ok (((List.range l.vertices.length).map
      (fun k => (fetch l.vertices k - fetch l.vertices (k + 1)).length)).sum) := by
  unfold Loop.setPerimeter
  have hn : ¬ l.vertices.length < 3 := by omega
  have hl0 : 0 < l.vertices.length := by omega
  simp only [hc, Bool.not_true, Bool.false_eq_true, if_false, hz, hn]
  rw [setPerimeterLoop_real l.vertices hl0]
  simp only [Nat.zero_add]
  num_real
  norm_num

/-- **the centroid is the mean of the vertices** -/
theorem centroid_real (l : Loop ℝ) (hc : l.closed = true) :
    l.centroid = .ok ⟨(l.vertices.map (·.x)).sum / l.vertices.length,
                      (l.vertices.map (·.y)).sum / l.vertices.length,
                      (l.vertices.map (·.z)).sum / l.vertices.length⟩ := by
  unfold Loop.centroid
  simp only [hc, Bool.not_true, Bool.false_eq_true, if_false]
  have key : ∀ (f : V3 ℝ → ℝ) (vs : List (V3 ℝ)) (acc : ℝ),
      vs.foldl (fun acc v => acc + f v) acc = acc + (vs.map f).sum := by
    intro f vs
    induction vs with
    | nil => intro acc; simp
    | cons v t ih => intro acc; simp only [List.foldl_cons, List.map_cons, List.sum_cons]; rw [ih]; ring
  have kx := key (·.x) l.vertices 0
  have ky := key (·.y) l.vertices 0
  have kz := key (·.z) l.vertices 0
  simp only [zero_add] at kx ky kz
  num_real
  simp only [Num.ofUsize]
  congr 1
  rw [V3.mk.injEq]
  refine ⟨?_, ?_, ?_⟩ <;> congr 1

/-! ## the perimeter: non-negative, translation invariant -/

/-- the perimeter sum of `setPerimeter_real` -/
def perim (vs : List (V3 ℝ)) : ℝ :=
  ((List.range vs.length).map (fun k => (fetch vs k - fetch vs (k + 1)).length)).sum

theorem length_nonneg' (v : V3 ℝ) : 0 ≤ v.length := by
  unfold V3.length; exact Real.sqrt_nonneg _

theorem perim_nonneg (vs : List (V3 ℝ)) : 0 ≤ perim vs := by
  unfold perim
  apply List.sum_nonneg
  intro x hx
  obtain ⟨k, _, rfl⟩ := List.mem_map.1 hx
  exact length_nonneg' _

theorem fetch_translate (vs : List (V3 ℝ)) (t : V3 ℝ) (i : Nat) (h : 0 < vs.length) :
    fetch (vs.map (· + t)) i = fetch vs i + t := by
  unfold fetch
  have hi : i % vs.length < vs.length := Nat.mod_lt _ h
  simp only [List.length_map]
  simp only [List.getD_eq_getElem?_getD, List.getElem?_map, List.getElem?_eq_getElem hi, Option.map_some, Option.getD_some]

/-- **the perimeter does not change when the loop is translated** -/
theorem perim_translation (vs : List (V3 ℝ)) (t : V3 ℝ) : perim (vs.map (· + t)) = perim vs := by
  rcases Nat.eq_zero_or_pos vs.length with h0 | hpos
  · have : vs = [] := List.length_eq_zero_iff.1 h0
    subst this; rfl
  · unfold perim
    simp only [List.length_map]
    congr 1
    apply List.map_congr_left
    intro k _
    rw [fetch_translate vs t k hpos, fetch_translate vs t (k + 1) hpos]
    congr 1
    vec_real
    refine ⟨?_, ?_, ?_⟩ <;> ring

end
end G3d.C10
