import G3d.Props.C12
import G3d.Props.C20
import Mathlib.Data.List.Rotate
import Mathlib.Data.Finset.Card
import Mathlib.Data.List.Perm.Basic
import Mathlib.Data.Finset.Range
/-!
# C12 — one merge step end to end: no vertex lost, net vector area

* `walk_tour` — the `n + 1` points of the hole walk are a closed tour `w₀ … w₀` whose open part is a rotation of the hole's
  vertex list (hole wound against the outline, walked forwards) or a reversed rotation (wound like it, walked backwards).
* `fed_area` — the fed outline has vector area `V(outline) − V(hole)` / `V(outline) + V(hole)` accordingly: net area.
* `pushAll_vertices` (generic) — when no fed point gives `push` a reason to drop a vertex, an `Ok` run leaves exactly the fed
  points.
* `mergeStep_area` — both together for `Polygon.buildAux`, the body of one iteration of `get_closed_loop`.
* `searchExtVertices_good`, `chooseCopy_bound` (generic) — a pair found by the nearest-pair search is an unprocessed hole, one of
  its vertex indices and an outline index; the copy chosen for the bridge vertex is an outline index too.
* `closedLoopIter_area`, `tryGetClosedLoop_area` — a *clean* `Ok` run (`Clean`: every iteration finds a pair, no push drops a
  vertex — stated with the model's own functions) merges every hole exactly once and returns an outline with
  `V = V(outer) + Σ_holes ∓V(hole)` and `n_outer + Σ (n_hole + 2)` vertices.  Non-vacuity: the C12 run exercises thousands of
  such `Ok` merges on the real code with the model agreeing bit for bit.
-/
namespace G3d.C12A
open G3d Num C04 C12 Shoelace
section generic
variable {α : Type} [Num α]
set_option linter.unusedSectionVars false

/-- every point of the list fits after what precedes it: `push` drops nothing on the way -/
def AllFit : List (V3 α) → List (V3 α × String) → Prop
  | _, [] => True
  | vs, (p, _) :: rest => FitsAfter vs p ∧ AllFit (vs ++ [p]) rest

/-- **no vertex is lost**: when every fed point fits, an `Ok` run of pushes leaves exactly the fed points, in order -/
theorem pushAll_vertices : ∀ (pts : List (V3 α × String)) (aux aux' : Loop α),
    pushAll pts aux = .ok aux' → AllFit aux.vertices pts → aux'.vertices = aux.vertices ++ pts.map Prod.fst := by
  intro pts
  induction pts with
  | nil => intro aux aux' h _; simp only [pushAll, Res.ok.injEq] at h; simp [h]
  | cons x rest ih =>
    intro aux aux' h hf
    obtain ⟨p, site⟩ := x
    obtain ⟨hf1, hf2⟩ := hf
    simp only [pushAll] at h
    cases hq : Polygon.pushQ aux p site with
    | err e => rw [hq] at h; cases h
    | panic q => rw [hq] at h; cases h
    | ok aux1 =>
      rw [hq] at h
      have hv : aux.validToAdd p = .ok () := by
        unfold Polygon.pushQ Loop.push at hq
        cases hva : aux.validToAdd p with
        | ok u => rfl
        | err e => simp [hva] at hq
        | panic q => simp [hva] at hq
      obtain ⟨h2, h3, _⟩ := C20.push_of_fits aux p hv hf1
      have h1 : aux1 = (aux.push p).1 := by
        unfold Polygon.pushQ at hq
        revert hq h2
        cases aux.push p with
        | mk a r =>
          intro hq h2
          simp only at h2
          subst h2
          simp only [Res.ok.injEq] at hq
          exact hq.symm
      have := ih aux1 aux' h (by rw [h1, h3]; exact hf2)
      rw [this, h1, h3]
      simp
end generic

noncomputable section

theorem walkList_forward (vs : List (V3 ℝ)) (s : Nat) (hs : s < vs.length) (hn : s + vs.length < 2147483648) (d : V3 ℝ) :
    (List.range vs.length).map (fun k => vs.getD (walkIdx false s vs.length k) d) = vs.rotate s := by
  apply List.ext_getElem
  · simp
  · intro k h1 h2
    simp only [List.length_map, List.length_range] at h1
    simp only [List.getElem_map, List.getElem_range]
    rw [walk_forward s vs.length k (by omega), List.getElem_rotate]
    have : (s + k) % vs.length < vs.length := Nat.mod_lt _ (by omega)
    simp [List.getD_eq_getElem?_getD, List.getElem?_eq_getElem this, Nat.add_comm]

theorem walkList_backward (vs : List (V3 ℝ)) (s : Nat) (hs : s < vs.length) (d : V3 ℝ) :
    (List.range vs.length).map (fun k => vs.getD (walkIdx true s vs.length k) d) = (vs.rotate (s + 1)).reverse := by
  apply List.ext_getElem
  · simp
  · intro k h1 h2
    simp only [List.length_map, List.length_range] at h1
    simp only [List.getElem_map, List.getElem_range, List.getElem_reverse, List.length_rotate]
    rw [List.getElem_rotate]
    have hw : walkIdx true s vs.length k = (s + vs.length - k) % vs.length := rfl
    rw [hw]
    have : (s + vs.length - k) % vs.length < vs.length := Nat.mod_lt _ (by omega)
    have e : (vs.length - 1 - k + (s + 1)) = s + vs.length - k := by omega
    simp [List.getD_eq_getElem?_getD, List.getElem?_eq_getElem this, e]

theorem map_range_succ_head {β : Type} (f : Nat → β) (m : Nat) :
    (List.range (m + 1)).map f = f 0 :: (List.range m).map (fun k => f (k + 1)) := by
  rw [List.range_succ_eq_map]; simp [Function.comp]

/-- the `n + 1` points of the hole walk are a closed tour `w₀ :: w ++ [w₀]` of the hole whose open part `w₀ :: w` is a
    rotation of the hole's vertex list (hole wound against the outline) or a reversed rotation (wound like it) -/
theorem walk_tour (vs : List (V3 ℝ)) (same : Bool) (s : Nat) (hs : s < vs.length) (hn : s + vs.length < 2147483648) :
    ∃ w0 w, (walkPoints vs same s (vs.length + 1) 0).map Prod.fst = w0 :: w ++ [w0]
      ∧ w0 :: w = (if same then (vs.rotate (s + 1)).reverse else vs.rotate s) := by
  have hmap : (walkPoints vs same s (vs.length + 1) 0).map Prod.fst
      = (List.range (vs.length + 1)).map (fun k => vs.getD (walkIdx same s vs.length k) ⟨0, 0, 0⟩) := by
    unfold walkPoints
    simp only [List.map_map]
    apply List.map_congr_left
    intro k _
    simp [Function.comp]
  have hR : (List.range vs.length).map (fun k => vs.getD (walkIdx same s vs.length k) ⟨0, 0, 0⟩)
      = (if same then (vs.rotate (s + 1)).reverse else vs.rotate s) := by
    cases same
    · simpa using walkList_forward vs s hs hn _
    · simpa using walkList_backward vs s hs _
  have hlast : walkIdx same s vs.length vs.length = walkIdx same s vs.length 0 := by
    have := walk_closed same s vs.length hs hn
    rw [this.1, this.2]
  obtain ⟨m, hm⟩ : ∃ m, vs.length = m + 1 := ⟨vs.length - 1, by omega⟩
  refine ⟨vs.getD (walkIdx same s vs.length 0) ⟨0, 0, 0⟩,
    (List.range m).map (fun k => vs.getD (walkIdx same s vs.length (k + 1)) ⟨0, 0, 0⟩), ?_, ?_⟩
  · rw [hmap, List.range_succ, List.map_append]
    simp only [List.map_cons, List.map_nil, hlast]
    congr 1
    rw [show List.range vs.length = List.range (m + 1) by rw [hm]]
    exact map_range_succ_head _ m
  · rw [← hR, show List.range vs.length = List.range (m + 1) by rw [hm]]
    exact (map_range_succ_head (fun k => vs.getD (walkIdx same s vs.length k) ⟨0, 0, 0⟩) m).symm

/-- **net area of one merge step**: the points fed to the merged outline for an outline `ext`, bridge vertex `ext[m]` and a
    hole `il` entered at its vertex `s` have vector area `V(ext) − V(hole)` when the hole is wound like the outline (walked
    backwards) and `V(ext) + V(hole)` when it is wound the other way (walked forwards) -/
theorem fed_area (il : Loop ℝ) (same : Bool) (s m : Nat) (ext : List (V3 ℝ)) (e : V3 ℝ)
    (hs : s < il.vertices.length) (hn : s + il.vertices.length < 2147483648) (hm : ext[m]? = some e) :
    cyc ((fed il same s m ext 0).map Prod.fst)
      = cyc ext + (if same then -(cyc il.vertices) else cyc il.vertices) := by
  obtain ⟨w0, w, hW, hR⟩ := walk_tour il.vertices same s hs hn
  rw [fed_shape il same s m ext 0 e (Nat.zero_le _) (by simpa using hm), hW]
  have hlt : m < ext.length := by
    by_contra h
    rw [List.getElem?_eq_none (by omega)] at hm
    cases hm
  have hsplit : ext = ext.take m ++ e :: ext.drop (m + 1) := by
    have he : ext[m] = e := by
      rw [List.getElem?_eq_getElem hlt] at hm; exact Option.some.inj hm
    rw [← he]
    simp
  have := merge_vector_area (ext.take m) (ext.drop (m + 1)) w e w0
  simp only [Nat.sub_zero]
  have h2 : ext.take m ++ e :: (w0 :: w ++ [w0] ++ [e]) ++ ext.drop (m + 1)
      = ext.take m ++ e :: (w0 :: w ++ [w0]) ++ e :: ext.drop (m + 1) := by simp
  rw [h2, this, ← hsplit, hR]
  cases same
  · simp [cyc_rotate_n]
  · simp [cyc_reverse, cyc_rotate_n]

/-- **one merge step of `get_closed_loop`, end to end** (exact arithmetic): when the step returns `Ok` and `push` had no
    reason to drop a vertex on the way, the new outline consists of exactly the fed points — every vertex of the old outline
    and of the hole is in it, with the bridge vertex and the hole's entry vertex twice — and its vector area is the old
    outline's minus the hole's (the hole is walked against the outline whatever its own winding) -/
theorem mergeStep_area (inner : List (Loop ℝ)) (N : V3 ℝ) (m minLoop s : Nat) (il : Loop ℝ) (ext : List (V3 ℝ)) (e : V3 ℝ)
    (aux : Loop ℝ) (hil : inner[minLoop]? = some il) (hs : s < il.vertices.length)
    (hn : s + il.vertices.length < 2147483648) (hm : ext[m]? = some e)
    (h : Polygon.buildAux inner N m minLoop s ext 0 Loop.new = .ok aux)
    (hfit : AllFit [] (fed il (N.isSameDirection il.normal) s m ext 0)) :
    aux.vertices = (fed il (N.isSameDirection il.normal) s m ext 0).map Prod.fst
    ∧ cyc aux.vertices = cyc ext + (if N.isSameDirection il.normal then -(cyc il.vertices) else cyc il.vertices)
    ∧ aux.vertices.length = ext.length + il.vertices.length + 2
    ∧ (∀ v ∈ ext, v ∈ aux.vertices) ∧ (∀ v ∈ il.vertices, v ∈ aux.vertices) := by
  rw [buildAux_eq inner N m minLoop s il hil (by omega)] at h
  have hv := pushAll_vertices _ _ _ h (by simpa [Loop.new] using hfit)
  have hv' : aux.vertices = (fed il (N.isSameDirection il.normal) s m ext 0).map Prod.fst := by
    rw [hv]; simp [Loop.new]
  refine ⟨hv', ?_, ?_, ?_, ?_⟩
  · rw [hv']; exact fed_area il _ s m ext e hs hn hm
  all_goals
    obtain ⟨w0, w, hW, hR⟩ := walk_tour il.vertices (N.isSameDirection il.normal) s hs hn
    have hlt : m < ext.length := by
      by_contra hc
      rw [List.getElem?_eq_none (by omega)] at hm
      cases hm
    have hsplit : ext = ext.take m ++ e :: ext.drop (m + 1) := by
      have he : ext[m] = e := by
        rw [List.getElem?_eq_getElem hlt] at hm; exact Option.some.inj hm
      rw [← he]; simp
    have hlen : (w0 :: w).length = il.vertices.length := by
      rw [hR]; split <;> simp
    have hmem : ∀ v, v ∈ w0 :: w ↔ v ∈ il.vertices := by
      intro v; rw [hR]; split <;> simp
    rw [hv', fed_shape il _ s m ext 0 e (Nat.zero_le _) (by simpa using hm), hW]
  · simp only [List.length_append, List.length_cons, List.length_nil, List.length_take, List.length_drop,
      Nat.sub_zero] at hlen ⊢
    omega
  · intro v hvx
    rw [hsplit] at hvx
    simp only [List.mem_append, List.mem_cons, Nat.sub_zero] at hvx ⊢
    tauto
  · intro v hvx
    have := (hmem v).2 hvx
    simp only [List.mem_append, List.mem_cons, Nat.sub_zero] at this ⊢
    tauto
end

/-! ## all iterations: the nearest-pair search, the copy choice, and the whole of `try_get_closed_loop` -/
section generic
variable {α : Type} [Num α]
set_option linter.unusedSectionVars false

/-- what the nearest-pair search guarantees about a pair it found -/
def Good (inner : List (Loop α)) (processed : List Nat) (extLen : Nat) (st : Polygon.MinSearch α) : Prop :=
  ∃ il, inner[st.minInnerLoopId]? = some il ∧ st.innerVertexId < il.vertices.length ∧ st.minExtVertexId < extLen
    ∧ processed.contains st.minInnerLoopId = false ∧ st.innerLoopId = st.minInnerLoopId

theorem searchInnerVertices_good (inner : List (Loop α)) (processed : List Nat) (extLen : Nat) (s0 : Polygon.MinSearch α)
    (extVertex : V3 α) (j k : Nat) (il : Loop α) (hk : inner[k]? = some il) (hj : j < extLen)
    (hp : processed.contains k = false) :
    ∀ (vs : List (V3 α)) (l : Nat) (st : Polygon.MinSearch α), l + vs.length = il.vertices.length →
      (st = s0 ∨ Good inner processed extLen st) →
      (Polygon.searchInnerVertices extVertex j k vs l st = s0
        ∨ Good inner processed extLen (Polygon.searchInnerVertices extVertex j k vs l st)) := by
  intro vs
  induction vs with
  | nil => intro l st _ h; exact h
  | cons v rest ih =>
    intro l st hl h
    unfold Polygon.searchInnerVertices
    simp only [List.length_cons] at hl
    apply ih (l + 1) _ (by omega)
    split
    · right
      exact ⟨il, hk, by simp only; omega, hj, hp, rfl⟩
    · exact h

theorem searchInnerLoops_good (inner : List (Loop α)) (processed : List Nat) (extLen : Nat) (s0 : Polygon.MinSearch α)
    (extVertex : V3 α) (j : Nat) (hj : j < extLen) :
    ∀ (ls : List (Loop α)) (k : Nat) (st : Polygon.MinSearch α), (∀ i, ls[i]? = inner[k + i]?) →
      (st = s0 ∨ Good inner processed extLen st) →
      (Polygon.searchInnerLoops extVertex j processed ls k st = s0
        ∨ Good inner processed extLen (Polygon.searchInnerLoops extVertex j processed ls k st)) := by
  intro ls
  induction ls with
  | nil => intro k st _ h; exact h
  | cons il rest ih =>
    intro k st hls h
    unfold Polygon.searchInnerLoops
    apply ih (k + 1) _ (by intro i; have := hls (i + 1); simpa [Nat.add_assoc, Nat.add_comm 1 i] using this)
    have hk : inner[k]? = some il := by have := hls 0; simpa using this.symm
    by_cases hp : processed.contains k = true
    · simp only [hp, if_true]; exact h
    · simp only [hp, Bool.false_eq_true, if_false]
      exact searchInnerVertices_good inner processed extLen s0 extVertex j k il hk hj (by simpa using hp)
        il.vertices 0 st (by simp) h

theorem searchExtVertices_good (inner : List (Loop α)) (processed : List Nat) (extLen : Nat) (s0 : Polygon.MinSearch α) :
    ∀ (ext : List (V3 α)) (j : Nat) (st : Polygon.MinSearch α), j + ext.length = extLen →
      (st = s0 ∨ Good inner processed extLen st) →
      (Polygon.searchExtVertices inner processed ext j st = s0
        ∨ Good inner processed extLen (Polygon.searchExtVertices inner processed ext j st)) := by
  intro ext
  induction ext with
  | nil => intro j st _ h; exact h
  | cons v rest ih =>
    intro j st hl h
    unfold Polygon.searchExtVertices
    simp only [List.length_cons] at hl
    apply ih (j + 1) _ (by omega)
    exact searchInnerLoops_good inner processed extLen s0 v j (by omega) inner 0 st (by intro i; simp) h

/-- the copy chosen for the bridge vertex is the one the search found or an index of the outline -/
theorem chooseCopyLoop_bound (ret : Loop α) (nExt : Nat) (extVertex bridge N : V3 α) :
    ∀ (fuel j cur r : Nat), Polygon.chooseCopyLoop ret nExt extVertex bridge N fuel j cur = .ok r →
      r = cur ∨ r < ret.vertices.length := by
  intro fuel
  induction fuel with
  | zero => intro j cur r h; simp only [Polygon.chooseCopyLoop, Res.ok.injEq] at h; exact Or.inl h.symm
  | succ f ih =>
    intro j cur r h
    unfold Polygon.chooseCopyLoop at h
    cases hi : ret.index j with
    | err e => simp [hi, bind, Res.bind] at h
    | panic q => simp [hi, bind, Res.bind] at h
    | ok rj =>
      have hjl : j < ret.vertices.length := by
        unfold Loop.index at hi
        by_contra hc
        simp [show j ≥ ret.vertices.length by omega] at hi
      simp only [hi, bind, Res.bind] at h
      split at h
      · exact ih _ _ _ h
      · split at h
        · cases h
        · cases h1 : ret.index ((j + nExt - 1) % nExt) with
          | err e => simp [h1] at h
          | panic q => simp [h1] at h
          | ok prev =>
            cases h2 : ret.index ((j + 1) % nExt) with
            | err e => simp [h1, h2] at h
            | panic q => simp [h1, h2] at h
            | ok next =>
              simp only [h1, h2] at h
              repeat' split at h
              all_goals first
                | exact ih _ _ _ h
                | (simp only [Res.ok.injEq] at h; right; omega)
                | cases h

def searchStart (st : Polygon.ClosedLoopState α) : Polygon.MinSearch α :=
  { minDistance := (9E14 : α), minInnerLoopId := 0, minExtVertexId := 0,
    innerLoopId := st.innerLoopId, innerVertexId := st.innerVertexId }

theorem closedLoopIter_succ (pg : Polygon α) (N : V3 α) (fuel : Nat) (st : Polygon.ClosedLoopState α) :
    Polygon.closedLoopIter pg N (fuel + 1) st =
      match Polygon.chooseCopy pg st.retLoop N
          (Polygon.searchExtVertices pg.inner st.processed st.retLoop.vertices 0 (searchStart st)) with
      | .err e => .err e
      | .panic p => .panic p
      | .ok minExt =>
        match Polygon.buildAux pg.inner N minExt
            (Polygon.searchExtVertices pg.inner st.processed st.retLoop.vertices 0 (searchStart st)).minInnerLoopId
            (Polygon.searchExtVertices pg.inner st.processed st.retLoop.vertices 0 (searchStart st)).innerVertexId
            st.retLoop.vertices 0 Loop.new with
        | .err e => .err e
        | .panic p => .panic p
        | .ok aux =>
          Polygon.closedLoopIter pg N fuel
            { retLoop := aux,
              processed := st.processed ++
                [(Polygon.searchExtVertices pg.inner st.processed st.retLoop.vertices 0 (searchStart st)).innerLoopId],
              innerLoopId :=
                (Polygon.searchExtVertices pg.inner st.processed st.retLoop.vertices 0 (searchStart st)).innerLoopId,
              innerVertexId :=
                (Polygon.searchExtVertices pg.inner st.processed st.retLoop.vertices 0 (searchStart st)).innerVertexId } :=
  rfl
end generic

noncomputable section

/-- what a merged hole adds to the outline's vector area: always against the outline, whatever its own winding -/
def contrib (N : V3 ℝ) (il : Loop ℝ) : V3 ℝ :=
  if N.isSameDirection il.normal then -(cyc il.vertices) else cyc il.vertices

/-- the run is *clean*: every iteration finds a pair (the search does not come back with its start value) and no fed point
    gives `push` a reason to drop a vertex.  Stated with the model's own functions, so it can be evaluated for a given polygon. -/
def Clean (pg : Polygon ℝ) (N : V3 ℝ) : Nat → Polygon.ClosedLoopState ℝ → Prop
  | 0, _ => True
  | fuel + 1, st =>
    let s := Polygon.searchExtVertices pg.inner st.processed st.retLoop.vertices 0 (searchStart st)
    s ≠ searchStart st ∧
    match Polygon.chooseCopy pg st.retLoop N s, pg.inner[s.minInnerLoopId]? with
    | .ok m, some il =>
      AllFit [] (fed il (N.isSameDirection il.normal) s.innerVertexId m st.retLoop.vertices 0) ∧
      match Polygon.buildAux pg.inner N m s.minInnerLoopId s.innerVertexId st.retLoop.vertices 0 Loop.new with
      | .ok aux => Clean pg N fuel
          { retLoop := aux, processed := st.processed ++ [s.innerLoopId],
            innerLoopId := s.innerLoopId, innerVertexId := s.innerVertexId }
      | _ => True
    | _, _ => True

def holesSum (pg : Polygon ℝ) (N : V3 ℝ) : List Nat → V3 ℝ
  | [] => ⟨0, 0, 0⟩
  | k :: ks => contrib N (pg.inner.getD k Loop.new) + holesSum pg N ks

def holesLen (pg : Polygon ℝ) : List Nat → Nat
  | [] => 0
  | k :: ks => (pg.inner.getD k Loop.new).vertices.length + 2 + holesLen pg ks

theorem chooseCopy_bound (pg : Polygon ℝ) (ret : Loop ℝ) (N : V3 ℝ) (s : Polygon.MinSearch ℝ) (m : Nat)
    (h : Polygon.chooseCopy pg ret N s = .ok m) (hs : s.minExtVertexId < ret.vertices.length) :
    m < ret.vertices.length := by
  unfold Polygon.chooseCopy at h
  split at h
  · cases h1 : ret.index s.minExtVertexId with
    | err e => simp [h1, bind, Res.bind] at h
    | panic q => simp [h1, bind, Res.bind] at h
    | ok ev =>
      simp only [h1, bind, Res.bind] at h
      cases h2 : pg.inner[s.minInnerLoopId]? with
      | none => simp [h2] at h
      | some il =>
        simp only [h2] at h
        cases h3 : il.index s.innerVertexId with
        | err e => simp [h3] at h
        | panic q => simp [h3] at h
        | ok iv =>
          simp only [h3] at h
          rcases chooseCopyLoop_bound _ _ _ _ _ _ _ _ _ h with h | h
          · omega
          · exact h
  · simp only [Res.ok.injEq] at h; omega

/-- **`get_closed_loop`, all iterations** (exact arithmetic): a clean `Ok` run merges one hole per iteration, never the same one
    twice, and the outline it returns has the outline's vector area plus every merged hole's contribution, and all their
    vertices -/
theorem closedLoopIter_area (pg : Polygon ℝ) (N : V3 ℝ)
    (hsmall : ∀ il ∈ pg.inner, il.vertices.length < 1073741824) :
    ∀ (fuel : Nat) (st : Polygon.ClosedLoopState ℝ) (L : Loop ℝ),
      Polygon.closedLoopIter pg N fuel st = .ok L → Clean pg N fuel st → st.processed.Nodup →
      ∃ ks : List Nat, ks.length = fuel ∧ (st.processed ++ ks).Nodup ∧ (∀ k ∈ ks, k < pg.inner.length)
        ∧ cyc L.vertices = cyc st.retLoop.vertices + holesSum pg N ks
        ∧ L.vertices.length = st.retLoop.vertices.length + holesLen pg ks := by
  intro fuel
  induction fuel with
  | zero =>
    intro st L h _ hnd
    simp only [Polygon.closedLoopIter, Res.ok.injEq] at h
    subst h
    exact ⟨[], rfl, by simpa using hnd, by simp, by simp [holesSum, add_zero'], by simp [holesLen]⟩
  | succ f ih =>
    intro st L h hc hnd
    rw [closedLoopIter_succ] at h
    unfold Clean at hc
    simp only at hc
    generalize hsdef : Polygon.searchExtVertices pg.inner st.processed st.retLoop.vertices 0 (searchStart st) = s at h hc
    obtain ⟨hne, hc⟩ := hc
    have hgood := searchExtVertices_good pg.inner st.processed st.retLoop.vertices.length (searchStart st)
      st.retLoop.vertices 0 (searchStart st) (by simp) (Or.inl rfl)
    rw [hsdef] at hgood
    rcases hgood with hbad | ⟨il, hil, hsl, hml, hproc, hid⟩
    · exact absurd hbad hne
    · cases hcc : Polygon.chooseCopy pg st.retLoop N s with
      | err e => simp [hcc] at h
      | panic q => simp [hcc] at h
      | ok m =>
        simp only [hcc, hil] at h hc
        obtain ⟨hfit, hc⟩ := hc
        have hm := chooseCopy_bound pg st.retLoop N s m hcc hml
        cases hb : Polygon.buildAux pg.inner N m s.minInnerLoopId s.innerVertexId st.retLoop.vertices 0 Loop.new with
        | err e => simp [hb] at h
        | panic q => simp [hb] at h
        | ok aux =>
          simp only [hb] at h hc
          have hmem : il ∈ pg.inner := List.mem_of_getElem? hil
          have hlen := hsmall il hmem
          obtain ⟨_, harea, hcount, _, _⟩ := mergeStep_area pg.inner N m s.minInnerLoopId s.innerVertexId il
            st.retLoop.vertices st.retLoop.vertices[m] aux hil hsl (by omega) (List.getElem?_eq_getElem hm) hb hfit
          have hnotin : s.minInnerLoopId ∉ st.processed := by
            intro hin
            have : st.processed.contains s.minInnerLoopId = true := by simpa using hin
            rw [this] at hproc; cases hproc
          have hnd' : (st.processed ++ [s.innerLoopId]).Nodup := by
            rw [hid]
            exact List.nodup_append.2 ⟨hnd, by simp, by
              intro a ha b hb; simp only [List.mem_singleton] at hb; subst hb; intro hab; subst hab; exact hnotin ha⟩
          obtain ⟨ks, hk1, hk2, hk3, hk4, hk5⟩ := ih _ L h hc hnd'
          have hklt : s.minInnerLoopId < pg.inner.length := by
            by_contra hcx
            rw [List.getElem?_eq_none (by omega)] at hil
            cases hil
          have hgetD : pg.inner.getD s.minInnerLoopId Loop.new = il := by
            simp [List.getD_eq_getElem?_getD, hil]
          refine ⟨s.minInnerLoopId :: ks, by simp [hk1], ?_, ?_, ?_, ?_⟩
          · simp only [hid] at hk2
            simpa [List.append_assoc] using hk2
          · intro k hk
            simp only [List.mem_cons] at hk
            rcases hk with rfl | hk
            · exact hklt
            · exact hk3 k hk
          · simp only at hk4
            rw [hk4, harea, holesSum, hgetD, contrib, add_assoc']
          · simp only at hk5
            rw [hk5, hcount, holesLen, hgetD]
            omega

theorem holesSum_perm (pg : Polygon ℝ) (N : V3 ℝ) {a b : List Nat} (h : a.Perm b) : holesSum pg N a = holesSum pg N b := by
  induction h with
  | nil => rfl
  | cons x _ ih => simp only [holesSum, ih]
  | swap x y l => simp only [holesSum]; v3_ring
  | trans _ _ ih1 ih2 => rw [ih1, ih2]

theorem holesLen_perm (pg : Polygon ℝ) {a b : List Nat} (h : a.Perm b) : holesLen pg a = holesLen pg b := by
  induction h with
  | nil => rfl
  | cons x _ ih => simp only [holesLen, ih]
  | swap x y l => simp only [holesLen]; omega
  | trans _ _ ih1 ih2 => rw [ih1, ih2]

theorem perm_range_of_nodup {ks : List Nat} {n : Nat} (hl : ks.length = n) (hnd : ks.Nodup) (hlt : ∀ k ∈ ks, k < n) :
    ks.Perm (List.range n) := by
  apply List.perm_of_nodup_nodup_toFinset_eq hnd List.nodup_range
  rw [List.toFinset_range]
  apply Finset.eq_of_subset_of_card_le
  · intro k hk
    simp only [List.mem_toFinset] at hk
    simpa using hlt k hk
  · rw [Finset.card_range, List.toFinset_card_of_nodup hnd, hl]

/-- **`try_get_closed_loop`, whole** (exact arithmetic): a clean `Ok` run returns an outline made of every vertex of the outer
    loop and of every hole (each hole's entry vertex and each bridge vertex twice) whose vector area is the outer loop's plus
    each hole's contribution `∓V(hole)` — the polygon's net area -/
theorem tryGetClosedLoop_area (pg : Polygon ℝ) (L : Loop ℝ)
    (hsmall : ∀ il ∈ pg.inner, il.vertices.length < 1073741824)
    (h : pg.tryGetClosedLoop = .ok L)
    (hc : Clean pg pg.outer.normal pg.inner.length
      { retLoop := pg.outer.open, processed := [], innerLoopId := 0, innerVertexId := 0 }) :
    cyc L.vertices = cyc pg.outer.vertices + holesSum pg pg.outer.normal (List.range pg.inner.length)
    ∧ L.vertices.length = pg.outer.vertices.length + holesLen pg (List.range pg.inner.length) := by
  unfold Polygon.tryGetClosedLoop at h
  obtain ⟨ks, h1, h2, h3, h4, h5⟩ := closedLoopIter_area pg pg.outer.normal hsmall _ _ L h hc (by simp)
  have hp := perm_range_of_nodup h1 (by simpa using h2) h3
  simp only [(open_vertices pg.outer).1] at h4 h5
  rw [h4, h5, holesSum_perm pg _ hp, holesLen_perm pg hp]
  exact ⟨rfl, rfl⟩

end
end G3d.C12A
