import G3d.Props.C12
import G3d.Props.C20
import Mathlib.Data.List.Rotate
/-!
# C12 — one merge step end to end: no vertex lost, net vector area

* `walk_tour` — the `n + 1` points of the hole walk are a closed tour `w₀ … w₀` whose open part is a rotation of the hole's
  vertex list (hole wound against the outline, walked forwards) or a reversed rotation (wound like it, walked backwards).
* `fed_area` — the fed outline has vector area `V(outline) − V(hole)` / `V(outline) + V(hole)` accordingly: net area.
* `pushAll_vertices` (generic) — when no fed point gives `push` a reason to drop a vertex, an `Ok` run leaves exactly the fed
  points.
* `mergeStep_area` — both together for `Polygon.buildAux`, the body of one iteration of `get_closed_loop`.
-/
namespace G3d.C12A
open G3d Num C04 C12 Shoelace
section generic
variable {α : Type} [Num α]
set_option linter.unusedSectionVars false

/-- every point of the list fits after what precedes it: `push` drops nothing on the way -/
def AllFit : List (V3 α) → List (V3 α × String) → Prop
  | _, [] => True
  | vs, (p, _) :: rest => FitsAfter vs p ∧ AllFit (vs ++ [p]) rest

/-- **no vertex is lost**: when every fed point fits, an `Ok` run of pushes leaves exactly the fed points, in order -/
theorem pushAll_vertices : ∀ (pts : List (V3 α × String)) (aux aux' : Loop α),
    pushAll pts aux = .ok aux' → AllFit aux.vertices pts → aux'.vertices = aux.vertices ++ pts.map Prod.fst := by
  intro pts
  induction pts with
  | nil => intro aux aux' h _; simp only [pushAll, Res.ok.injEq] at h; simp [h]
  | cons x rest ih =>
    intro aux aux' h hf
    obtain ⟨p, site⟩ := x
    obtain ⟨hf1, hf2⟩ := hf
    simp only [pushAll] at h
    cases hq : Polygon.pushQ aux p site with
    | err e => rw [hq] at h; cases h
    | panic q => rw [hq] at h; cases h
    | ok aux1 =>
      rw [hq] at h
      have hv : aux.validToAdd p = .ok () := by
        unfold Polygon.pushQ Loop.push at hq
        cases hva : aux.validToAdd p with
        | ok u => rfl
        | err e => simp [hva] at hq
        | panic q => simp [hva] at hq
      obtain ⟨h2, h3, _⟩ := C20.push_of_fits aux p hv hf1
      have h1 : aux1 = (aux.push p).1 := by
        unfold Polygon.pushQ at hq
        revert hq h2
        cases aux.push p with
        | mk a r =>
          intro hq h2
          simp only at h2
          subst h2
          simp only [Res.ok.injEq] at hq
          exact hq.symm
      have := ih aux1 aux' h (by rw [h1, h3]; exact hf2)
      rw [this, h1, h3]
      simp
end generic

noncomputable section

theorem walkList_forward (vs : List (V3 ℝ)) (s : Nat) (hs : s < vs.length) (hn : s + vs.length < 2147483648) (d : V3 ℝ) :
    (List.range vs.length).map (fun k => vs.getD (walkIdx false s vs.length k) d) = vs.rotate s := by
  apply List.ext_getElem
  · simp
  · intro k h1 h2
    simp only [List.length_map, List.length_range] at h1
    simp only [List.getElem_map, List.getElem_range]
    rw [walk_forward s vs.length k (by omega), List.getElem_rotate]
    have : (s + k) % vs.length < vs.length := Nat.mod_lt _ (by omega)
    simp [List.getD_eq_getElem?_getD, List.getElem?_eq_getElem this, Nat.add_comm]

theorem walkList_backward (vs : List (V3 ℝ)) (s : Nat) (hs : s < vs.length) (d : V3 ℝ) :
    (List.range vs.length).map (fun k => vs.getD (walkIdx true s vs.length k) d) = (vs.rotate (s + 1)).reverse := by
  apply List.ext_getElem
  · simp
  · intro k h1 h2
    simp only [List.length_map, List.length_range] at h1
    simp only [List.getElem_map, List.getElem_range, List.getElem_reverse, List.length_rotate]
    rw [List.getElem_rotate]
    have hw : walkIdx true s vs.length k = (s + vs.length - k) % vs.length := rfl
    rw [hw]
    have : (s + vs.length - k) % vs.length < vs.length := Nat.mod_lt _ (by omega)
    have e : (vs.length - 1 - k + (s + 1)) = s + vs.length - k := by omega
    simp [List.getD_eq_getElem?_getD, List.getElem?_eq_getElem this, e]

theorem map_range_succ_head {β : Type} (f : Nat → β) (m : Nat) :
    (List.range (m + 1)).map f = f 0 :: (List.range m).map (fun k => f (k + 1)) := by
  rw [List.range_succ_eq_map]; simp [Function.comp]

/-- the `n + 1` points of the hole walk are a closed tour `w₀ :: w ++ [w₀]` of the hole whose open part `w₀ :: w` is a
    rotation of the hole's vertex list (hole wound against the outline) or a reversed rotation (wound like it) -/
theorem walk_tour (vs : List (V3 ℝ)) (same : Bool) (s : Nat) (hs : s < vs.length) (hn : s + vs.length < 2147483648) :
    ∃ w0 w, (walkPoints vs same s (vs.length + 1) 0).map Prod.fst = w0 :: w ++ [w0]
      ∧ w0 :: w = (if same then (vs.rotate (s + 1)).reverse else vs.rotate s) := by
  have hmap : (walkPoints vs same s (vs.length + 1) 0).map Prod.fst
      = (List.range (vs.length + 1)).map (fun k => vs.getD (walkIdx same s vs.length k) ⟨0, 0, 0⟩) := by
    unfold walkPoints
    simp only [List.map_map]
    apply List.map_congr_left
    intro k _
    simp [Function.comp]
  have hR : (List.range vs.length).map (fun k => vs.getD (walkIdx same s vs.length k) ⟨0, 0, 0⟩)
      = (if same then (vs.rotate (s + 1)).reverse else vs.rotate s) := by
    cases same
    · simpa using walkList_forward vs s hs hn _
    · simpa using walkList_backward vs s hs _
  have hlast : walkIdx same s vs.length vs.length = walkIdx same s vs.length 0 := by
    have := walk_closed same s vs.length hs hn
    rw [this.1, this.2]
  obtain ⟨m, hm⟩ : ∃ m, vs.length = m + 1 := ⟨vs.length - 1, by omega⟩
  refine ⟨vs.getD (walkIdx same s vs.length 0) ⟨0, 0, 0⟩,
    (List.range m).map (fun k => vs.getD (walkIdx same s vs.length (k + 1)) ⟨0, 0, 0⟩), ?_, ?_⟩
  · rw [hmap, List.range_succ, List.map_append]
    simp only [List.map_cons, List.map_nil, hlast]
    congr 1
    rw [show List.range vs.length = List.range (m + 1) by rw [hm]]
    exact map_range_succ_head _ m
  · rw [← hR, show List.range vs.length = List.range (m + 1) by rw [hm]]
    exact (map_range_succ_head (fun k => vs.getD (walkIdx same s vs.length k) ⟨0, 0, 0⟩) m).symm

/-- **net area of one merge step**: the points fed to the merged outline for an outline `ext`, bridge vertex `ext[m]` and a
    hole `il` entered at its vertex `s` have vector area `V(ext) − V(hole)` when the hole is wound like the outline (walked
    backwards) and `V(ext) + V(hole)` when it is wound the other way (walked forwards) -/
theorem fed_area (il : Loop ℝ) (same : Bool) (s m : Nat) (ext : List (V3 ℝ)) (e : V3 ℝ)
    (hs : s < il.vertices.length) (hn : s + il.vertices.length < 2147483648) (hm : ext[m]? = some e) :
    cyc ((fed il same s m ext 0).map Prod.fst)
      = cyc ext + (if same then -(cyc il.vertices) else cyc il.vertices) := by
  obtain ⟨w0, w, hW, hR⟩ := walk_tour il.vertices same s hs hn
  rw [fed_shape il same s m ext 0 e (Nat.zero_le _) (by simpa using hm), hW]
  have hlt : m < ext.length := by
    by_contra h
    rw [List.getElem?_eq_none (by omega)] at hm
    cases hm
  have hsplit : ext = ext.take m ++ e :: ext.drop (m + 1) := by
    have he : ext[m] = e := by
      rw [List.getElem?_eq_getElem hlt] at hm; exact Option.some.inj hm
    rw [← he]
    simp
  have := merge_vector_area (ext.take m) (ext.drop (m + 1)) w e w0
  simp only [Nat.sub_zero]
  have h2 : ext.take m ++ e :: (w0 :: w ++ [w0] ++ [e]) ++ ext.drop (m + 1)
      = ext.take m ++ e :: (w0 :: w ++ [w0]) ++ e :: ext.drop (m + 1) := by simp
  rw [h2, this, ← hsplit, hR]
  cases same
  · simp [cyc_rotate_n]
  · simp [cyc_reverse, cyc_rotate_n]

/-- **one merge step of `get_closed_loop`, end to end** (exact arithmetic): when the step returns `Ok` and `push` had no
    reason to drop a vertex on the way, the new outline consists of exactly the fed points — every vertex of the old outline
    and of the hole is in it, with the bridge vertex and the hole's entry vertex twice — and its vector area is the old
    outline's minus the hole's (the hole is walked against the outline whatever its own winding) -/
theorem mergeStep_area (inner : List (Loop ℝ)) (N : V3 ℝ) (m minLoop s : Nat) (il : Loop ℝ) (ext : List (V3 ℝ)) (e : V3 ℝ)
    (aux : Loop ℝ) (hil : inner[minLoop]? = some il) (hs : s < il.vertices.length)
    (hn : s + il.vertices.length < 2147483648) (hm : ext[m]? = some e)
    (h : Polygon.buildAux inner N m minLoop s ext 0 Loop.new = .ok aux)
    (hfit : AllFit [] (fed il (N.isSameDirection il.normal) s m ext 0)) :
    aux.vertices = (fed il (N.isSameDirection il.normal) s m ext 0).map Prod.fst
    ∧ cyc aux.vertices = cyc ext + (if N.isSameDirection il.normal then -(cyc il.vertices) else cyc il.vertices)
    ∧ aux.vertices.length = ext.length + il.vertices.length + 2
    ∧ (∀ v ∈ ext, v ∈ aux.vertices) ∧ (∀ v ∈ il.vertices, v ∈ aux.vertices) := by
  rw [buildAux_eq inner N m minLoop s il hil (by omega)] at h
  have hv := pushAll_vertices _ _ _ h (by simpa [Loop.new] using hfit)
  have hv' : aux.vertices = (fed il (N.isSameDirection il.normal) s m ext 0).map Prod.fst := by
    rw [hv]; simp [Loop.new]
  refine ⟨hv', ?_, ?_, ?_, ?_⟩
  · rw [hv']; exact fed_area il _ s m ext e hs hn hm
  all_goals
    obtain ⟨w0, w, hW, hR⟩ := walk_tour il.vertices (N.isSameDirection il.normal) s hs hn
    have hlt : m < ext.length := by
      by_contra hc
      rw [List.getElem?_eq_none (by omega)] at hm
      cases hm
    have hsplit : ext = ext.take m ++ e :: ext.drop (m + 1) := by
      have he : ext[m] = e := by
        rw [List.getElem?_eq_getElem hlt] at hm; exact Option.some.inj hm
      rw [← he]; simp
    have hlen : (w0 :: w).length = il.vertices.length := by
      rw [hR]; split <;> simp
    have hmem : ∀ v, v ∈ w0 :: w ↔ v ∈ il.vertices := by
      intro v; rw [hR]; split <;> simp
    rw [hv', fed_shape il _ s m ext 0 e (Nat.zero_le _) (by simpa using hm), hW]
  · simp only [List.length_append, List.length_cons, List.length_nil, List.length_take, List.length_drop,
      Nat.sub_zero] at hlen ⊢
    omega
  · intro v hvx
    rw [hsplit] at hvx
    simp only [List.mem_append, List.mem_cons, Nat.sub_zero] at hvx ⊢
    tauto
  · intro v hvx
    have := (hmem v).2 hvx
    simp only [List.mem_append, List.mem_cons, Nat.sub_zero] at this ⊢
    tauto
end
end G3d.C12A
