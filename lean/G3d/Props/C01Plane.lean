import G3d.Props.C08Steps
import G3d.Props.C19
/-!
# C01 — every returned triangle lies in the polygon's plane (and a small Hoare logic for per-slot invariants)

Generic part: for a predicate `P` on points and `Q` on slots with the closure properties `PQ` (the neighbour / constraint /
validity mutators keep `Q`; a slot built by `TriPiece::new` from `P`-points satisfies `Q`; `Q` gives `P` of the corners, of the
cached circumcentre and centroid; `P` is closed under edge midpoints), the triple `Tr Q x R` = "from a mesh all of whose slots
satisfy `Q`, `x` ends — whatever its outcome — in such a mesh, and an `Ok` value satisfies `R`" is proved for every mesh
operation of the model by the sequencing rule `tr_bind`: `markAsNeighbours`, `splitTriangle`, `splitEdge`, `flipDiagonal`,
`restoreDelaunay`, `addPointToTriangle`, `refinePass`, `refine`, `markNeighbourhouds`, the ear step; and for the outline:
`push`, `close`, `sanitize`, `remove` and the merge loops of `try_get_closed_loop` never invent a vertex.
`meshPolygon_allQ`: every slot of every mesh `mesh_polygon` returns satisfies `Q`.
Over ℝ with `P v := v · N = d`: `meshPolygon_in_plane`.
-/
namespace G3d.C01P
open G3d Num Mesh MeshM C08S
section generic
variable {α : Type} [Num α]
set_option linter.unusedSectionVars false

/-- what a per-point predicate `P` and a per-piece predicate `Q` must satisfy for `Q` to hold of every slot for ever -/
structure PQ (P : V3 α → Prop) (Q : TriPiece α → Prop) : Prop where
  setN : ∀ t e i, Q t → Q (t.setNeighbour e i)
  con : ∀ t e, Q t → Q (t.constrain e)
  inv : ∀ t, Q t → Q t.invalidate
  corners : ∀ t, Q t → P t.triangle.a ∧ P t.triangle.b ∧ P t.triangle.c
  new : ∀ a b c i tp, P a → P b → P c → TriPiece.new a b c i = .ok tp → Q tp
  cached : ∀ t, Q t → P t.circumcenter ∧ P t.centroid
  mid : ∀ s : Segment α, P s.start → P s.stop → P s.midpoint

variable {P : V3 α → Prop} {Q : TriPiece α → Prop}

/-- every slot of the mesh, live or not, satisfies `Q` -/
def AllQ (Q : TriPiece α → Prop) (m : Mesh α) : Prop := ∀ (i : Nat) (t : TriPiece α), m.triangles[i]? = some t → Q t

/-- Hoare triple `{AllQ} x {b. AllQ ∧ R b}` — the invariant survives every outcome, `R` holds of an `Ok` value -/
def Tr (Q : TriPiece α → Prop) {β : Type} (x : MeshM α β) (R : β → Prop) : Prop :=
  ∀ m m' r, x m = (m', r) → AllQ Q m → AllQ Q m' ∧ ∀ b, r = .ok b → R b

theorem tr_bind {β γ : Type} (x : MeshM α β) (f : β → MeshM α γ) (R : β → Prop) (S : γ → Prop)
    (hx : Tr Q x R) (hf : ∀ b, R b → Tr Q (f b) S) : Tr Q (x >>= f) S := by
  intro m m' r h hm
  change MeshM.bind x f m = _ at h
  unfold MeshM.bind at h
  cases hxm : x m with
  | mk m1 r1 =>
    rw [hxm] at h
    obtain ⟨h1, h2⟩ := hx m m1 r1 hxm hm
    cases r1 with
    | ok b => exact hf b (h2 b rfl) m1 m' r h h1
    | err e => simp only [Prod.mk.injEq] at h; rw [← h.1, ← h.2]; exact ⟨h1, by intro b hb; cases hb⟩
    | panic q => simp only [Prod.mk.injEq] at h; rw [← h.1, ← h.2]; exact ⟨h1, by intro b hb; cases hb⟩

theorem tr_conseq {β : Type} (x : MeshM α β) (R S : β → Prop) (hx : Tr Q x R) (h : ∀ b, R b → S b) : Tr Q x S := by
  intro m m' r hxm hm
  obtain ⟨h1, h2⟩ := hx m m' r hxm hm
  exact ⟨h1, fun b hb => h b (h2 b hb)⟩

theorem tr_pure {β : Type} (b : β) (R : β → Prop) (hb : R b) : Tr Q (MeshM.pure b : MeshM α β) R := by
  intro m m' r h hm
  simp only [MeshM.pure, Prod.mk.injEq] at h
  rw [← h.1, ← h.2]
  exact ⟨hm, by intro b' hb'; injection hb' with hb'; rw [← hb']; exact hb⟩

theorem tr_ofRes {β : Type} (r : Res β) (R : β → Prop) (hr : ∀ b, r = .ok b → R b) : Tr Q (ofRes r : MeshM α β) R := by
  intro m m' r' h hm
  simp only [ofRes, Prod.mk.injEq] at h
  rw [← h.1, ← h.2]
  exact ⟨hm, hr⟩

theorem tr_err {β : Type} (k : String) (R : β → Prop) : Tr Q (MeshM.err k : MeshM α β) R := by
  intro m m' r h hm
  simp only [MeshM.err, Prod.mk.injEq] at h
  rw [← h.1, ← h.2]
  exact ⟨hm, by intro b hb; cases hb⟩

theorem tr_panic {β : Type} (k : String) (R : β → Prop) : Tr Q (MeshM.panic k : MeshM α β) R := by
  intro m m' r h hm
  simp only [MeshM.panic, Prod.mk.injEq] at h
  rw [← h.1, ← h.2]
  exact ⟨hm, by intro b hb; cases hb⟩

theorem tr_readR {β : Type} (f : Mesh α → Res β) : Tr Q (readR f) (fun _ => True) := by
  intro m m' r h hm
  simp only [readR, Prod.mk.injEq] at h
  rw [← h.1]
  exact ⟨hm, fun _ _ => trivial⟩

/-- a slot that is read satisfies `Q` -/
theorem tr_tgetM (i : Nat) (site : String) : Tr Q (tgetM i site : MeshM α (TriPiece α)) Q := by
  intro m m' r h hm
  simp only [tgetM, Prod.mk.injEq] at h
  rw [← h.1]
  refine ⟨hm, ?_⟩
  intro b hb
  rw [← h.2] at hb
  unfold Mesh.tget at hb
  cases ht : m.triangles[i]? with
  | none => rw [ht] at hb; cases hb
  | some t => rw [ht] at hb; injection hb with hb; rw [← hb]; exact hm i t ht

theorem allQ_modify (m : Mesh α) (i : Nat) (f : TriPiece α → TriPiece α) (hf : ∀ t, Q t → Q (f t)) (nv : Nat)
    (hm : AllQ Q m) : AllQ Q { triangles := m.triangles.modify i f, nValid := nv } := by
  intro j t hj
  simp only [Array.getElem?_modify] at hj
  by_cases hij : i = j
  · simp only [hij, if_true] at hj
    cases hold : m.triangles[j]? with
    | none => rw [hold] at hj; cases hj
    | some told => rw [hold] at hj; simp only [Option.map_some, Option.some.injEq] at hj; rw [← hj]; exact hf _ (hm j told hold)
  · simp only [hij, if_false] at hj
    exact hm j t hj

theorem tr_tmodifyM (i : Nat) (f : TriPiece α → TriPiece α) (site : String) (hf : ∀ t, Q t → Q (f t)) :
    Tr Q (tmodifyM i f site : MeshM α Unit) (fun _ => True) := by
  intro m m' r h hm
  unfold tmodifyM at h
  split at h
  · simp only [Prod.mk.injEq] at h
    rw [← h.1]
    exact ⟨allQ_modify m i f hf _ hm, fun _ _ => trivial⟩
  · simp only [Prod.mk.injEq] at h
    rw [← h.1]
    exact ⟨hm, fun _ _ => trivial⟩

theorem tr_invalidate (hpq : PQ P Q) (i : Nat) : Tr Q (invalidate i : MeshM α Unit) (fun _ => True) := by
  intro m m' r h hm
  unfold invalidate at h
  simp only [] at h
  split at h
  · simp only [Prod.mk.injEq] at h
    rw [← h.1]
    exact ⟨allQ_modify m i _ hpq.inv _ hm, fun _ _ => trivial⟩
  · simp only [Prod.mk.injEq] at h
    rw [← h.1]
    exact ⟨hm, fun _ _ => trivial⟩

theorem tr_push (hpq : PQ P Q) (a b c : V3 α) (la : Nat) (ha : P a) (hb : P b) (hc : P c) :
    Tr Q (Mesh.push a b c la : MeshM α Nat) (fun _ => True) := by
  intro m m' r h hm
  refine ⟨?_, fun _ _ => trivial⟩
  unfold Mesh.push at h
  simp only [Bind.bind, MeshM.bind, readR] at h
  cases hfi : m.getFirstInvalid la with
  | err e => rw [hfi] at h; simp at h; rw [← h.1]; exact hm
  | panic e => rw [hfi] at h; simp at h; rw [← h.1]; exact hm
  | ok fi =>
    rw [hfi] at h
    simp only [] at h
    cases fi with
    | none =>
      simp only [] at h
      cases ht : TriPiece.new a b c m.triangles.size with
      | err e => rw [ht] at h; simp [MeshM.err] at h; rw [← h.1]; exact hm
      | panic e => rw [ht] at h; simp [MeshM.panic] at h; rw [← h.1]; exact hm
      | ok t =>
        rw [ht] at h
        simp only [if_true, Prod.mk.injEq] at h
        rw [← h.1]
        intro j tj hj
        simp only [Array.getElem?_push] at hj
        split at hj
        · injection hj with hj; rw [← hj]; exact hpq.new _ _ _ _ _ ha hb hc ht
        · exact hm j tj hj
    | some k =>
      simp only [] at h
      cases ht : TriPiece.new a b c k with
      | err e => rw [ht] at h; simp [MeshM.err] at h; rw [← h.1]; exact hm
      | panic e => rw [ht] at h; simp [MeshM.panic] at h; rw [← h.1]; exact hm
      | ok t =>
        rw [ht] at h
        simp only [Bool.false_eq_true, if_false] at h
        split at h
        · simp only [Prod.mk.injEq] at h
          rw [← h.1]
          intro j tj hj
          simp only [Array.set!] at hj
          by_cases hkj : k = j
          · subst hkj
            rw [Array.getElem?_setIfInBounds_self_of_lt (by assumption)] at hj
            injection hj with hj; rw [← hj]; exact hpq.new _ _ _ _ _ ha hb hc ht
          · rw [Array.getElem?_setIfInBounds_ne hkj] at hj
            exact hm j tj hj
        · simp only [Prod.mk.injEq] at h; rw [← h.1]; exact hm

theorem tr_bindT {β γ : Type} (x : MeshM α β) (f : β → MeshM α γ) (S : γ → Prop)
    (hx : Tr Q x (fun _ => True)) (hf : ∀ b, Tr Q (f b) S) : Tr Q (x >>= f) S :=
  tr_bind x f _ S hx (fun b _ => hf b)

theorem tr_ofResT {β : Type} (r : Res β) : Tr Q (ofRes r : MeshM α β) (fun _ => True) :=
  tr_ofRes r _ (fun _ _ => trivial)

theorem tr_weak {β : Type} (x : MeshM α β) (R : β → Prop) (hx : Tr Q x R) : Tr Q x (fun _ => True) :=
  tr_conseq x R _ hx (fun _ _ => trivial)

theorem tr_markAsNeighbours (hpq : PQ P Q) (i1 : Nat) (e : Edge) (i2 : Nat) :
    Tr Q (markAsNeighbours i1 e i2 : MeshM α Unit) (fun _ => True) := by
  unfold markAsNeighbours
  split
  · exact tr_err _ _
  · refine tr_bindT _ _ _ (tr_weak _ _ (tr_tgetM _ _)) (fun t1 => ?_)
    split
    · exact tr_err _ _
    · refine tr_bindT _ _ _ (tr_ofResT _) (fun seg => ?_)
      refine tr_bindT _ _ _ (tr_weak _ _ (tr_tgetM _ _)) (fun t2 => ?_)
      split
      · exact tr_err _ _
      · refine tr_bindT _ _ _ (tr_ofResT _) (fun _ => ?_)
        refine tr_bindT _ _ _ (tr_ofResT _) (fun _ => ?_)
        refine tr_bindT _ _ _ (tr_tmodifyM _ _ _ (fun t ht => hpq.setN t _ _ ht)) (fun _ => ?_)
        exact tr_tmodifyM _ _ _ (fun t ht => hpq.setN t _ _ ht)

theorem tr_optMark (hpq : PQ P Q) (o : Option Nat) (i : Nat) (e : Edge) :
    Tr Q (match o with
      | some ni => markAsNeighbours i e ni
      | none => (MeshM.pure () : MeshM α Unit)) (fun _ => True) := by
  cases o with
  | none => exact tr_pure _ _ trivial
  | some ni => exact tr_markAsNeighbours hpq _ _ _

theorem tr_optConstrain (hpq : PQ P Q) (c : Bool) (i : Nat) (e : Edge) (s : String) :
    Tr Q (if c then tmodifyM i (fun t => t.constrain e) s else (MeshM.pure () : MeshM α Unit)) (fun _ => True) := by
  cases c with
  | false => exact tr_pure _ _ trivial
  | true => exact tr_tmodifyM _ _ _ (fun t ht => hpq.con t _ ht)

theorem vertex_P (t : Triangle α) (k : Nat) (v : V3 α) (h : t.vertex k = .ok v)
    (hp : P t.a ∧ P t.b ∧ P t.c) : P v := by
  unfold Triangle.vertex at h
  split at h <;> first | (injection h with h; rw [← h]; first | exact hp.1 | exact hp.2.1 | exact hp.2.2) | cases h

theorem segment_P (t : Triangle α) (k : Nat) (s : Segment α) (h : t.segment k = .ok s)
    (hp : P t.a ∧ P t.b ∧ P t.c) : P s.start ∧ P s.stop := by
  unfold Triangle.segment at h
  split at h
  · injection h with h; rw [← h]; exact ⟨hp.1, hp.2.1⟩
  · injection h with h; rw [← h]; exact ⟨hp.2.1, hp.2.2⟩
  · injection h with h; rw [← h]; exact ⟨hp.2.2, hp.1⟩
  · cases h

theorem opposite_P (t : Triangle α) (s : Segment α) (v : V3 α) (h : getOppositeVertex t s = .ok v)
    (hp : P t.a ∧ P t.b ∧ P t.c) : P v := by
  unfold getOppositeVertex at h
  split at h
  · split at h
    · exact vertex_P t _ v h hp
    · exact vertex_P t _ v h hp
    · exact vertex_P t _ v h hp
    · cases h
  · cases h

/-- `split_triangle(i, p)` with `p` satisfying `P` keeps `Q` on every slot, whatever the outcome -/
theorem tr_splitTriangle (hpq : PQ P Q) (i : Nat) (p : V3 α) (hp : P p) :
    Tr Q (splitTriangle i p : MeshM α Unit) (fun _ => True) := by
  unfold splitTriangle
  refine tr_bind _ _ Q _ (tr_tgetM _ _) (fun tp htp => ?_)
  obtain ⟨ha, hb, hc⟩ := hpq.corners tp htp
  split
  · exact tr_err _ _
  · refine tr_bindT _ _ _ (tr_ofResT _) (fun _ => ?_)
    refine tr_bindT _ _ _ (tr_ofResT _) (fun _ => ?_)
    refine tr_bindT _ _ _ (tr_ofResT _) (fun _ => ?_)
    refine tr_bindT _ _ _ (tr_invalidate hpq _) (fun _ => ?_)
    refine tr_bindT _ _ _ (tr_push hpq _ _ _ _ hc ha hp) (fun _ => ?_)
    refine tr_bindT _ _ _ (tr_push hpq _ _ _ _ ha hb hp) (fun _ => ?_)
    refine tr_bindT _ _ _ (tr_push hpq _ _ _ _ hb hc hp) (fun _ => ?_)
    refine tr_bindT _ _ _ (tr_markAsNeighbours hpq _ _ _) (fun _ => ?_)
    refine tr_bindT _ _ _ (tr_markAsNeighbours hpq _ _ _) (fun _ => ?_)
    refine tr_bindT _ _ _ (tr_markAsNeighbours hpq _ _ _) (fun _ => ?_)
    refine tr_bindT _ _ _ (tr_optConstrain hpq _ _ _ _) (fun _ => ?_)
    refine tr_bindT _ _ _ (tr_optMark hpq _ _ _) (fun _ => ?_)
    refine tr_bindT _ _ _ (tr_optConstrain hpq _ _ _ _) (fun _ => ?_)
    refine tr_bindT _ _ _ (tr_optMark hpq _ _ _) (fun _ => ?_)
    refine tr_bindT _ _ _ (tr_optConstrain hpq _ _ _ _) (fun _ => ?_)
    exact tr_optMark hpq _ _ _

theorem tr_processHemisphere (hpq : PQ P Q) (seg : Segment α) (p : V3 α) (index : Nat) (hp : P p) :
    Tr Q (processHemisphere seg p index : MeshM α (Nat × Nat)) (fun _ => True) := by
  unfold processHemisphere
  refine tr_bind _ _ Q _ (tr_tgetM _ _) (fun tp htp => ?_)
  have hc := hpq.corners tp htp
  refine tr_bindT _ _ _ (tr_ofResT _) (fun abIndex => ?_)
  refine tr_bind _ _ (fun ab => P ab.start ∧ P ab.stop) _
    (tr_ofRes _ _ (fun ab hab => segment_P _ _ ab hab hc)) (fun ab hab => ?_)
  refine tr_bindT _ _ _ (tr_ofResT _) (fun _ => ?_)
  refine tr_bindT _ _ _ (tr_ofResT _) (fun _ => ?_)
  refine tr_bind _ _ P _ (tr_ofRes _ _ (fun v hv => opposite_P _ _ v hv hc)) (fun vc hvc => ?_)
  refine tr_bindT _ _ _ (tr_invalidate hpq _) (fun _ => ?_)
  refine tr_bindT _ _ _ (tr_weak _ _ (tr_tgetM _ _)) (fun tp2 => ?_)
  refine tr_bindT _ _ _ (tr_ofResT _) (fun _ => ?_)
  refine tr_bindT _ _ _ (tr_ofResT _) (fun _ => ?_)
  refine tr_bindT _ _ _ (tr_push hpq _ _ _ _ hab.1 hp hvc) (fun _ => ?_)
  refine tr_bindT _ _ _ (tr_push hpq _ _ _ _ hp hab.2 hvc) (fun _ => ?_)
  refine tr_bindT _ _ _ (tr_optConstrain hpq _ _ _ _) (fun _ => ?_)
  refine tr_bindT _ _ _ (tr_markAsNeighbours hpq _ _ _) (fun _ => ?_)
  refine tr_bindT _ _ _ (tr_optMark hpq _ _ _) (fun _ => ?_)
  refine tr_bindT _ _ _ (tr_optConstrain hpq _ _ _ _) (fun _ => ?_)
  refine tr_bindT _ _ _ (tr_optConstrain hpq _ _ _ _) (fun _ => ?_)
  refine tr_bindT _ _ _ (tr_optMark hpq _ _ _) (fun _ => ?_)
  refine tr_bindT _ _ _ (tr_optConstrain hpq _ _ _ _) (fun _ => ?_)
  exact tr_pure _ _ trivial

theorem tr_splitEdge (hpq : PQ P Q) (i : Nat) (e : Edge) (p : V3 α) (hp : P p) :
    Tr Q (splitEdge i e p : MeshM α Unit) (fun _ => True) := by
  unfold splitEdge
  refine tr_bindT _ _ _ (tr_weak _ _ (tr_tgetM _ _)) (fun tp => ?_)
  split
  · exact tr_err _ _
  · refine tr_bindT _ _ _ (tr_ofResT _) (fun _ => ?_)
    refine tr_bindT _ _ _ (tr_processHemisphere hpq _ _ _ hp) (fun r1 => ?_)
    obtain ⟨tl, tr⟩ := r1
    simp only []
    split
    · refine tr_bindT _ _ _ (tr_processHemisphere hpq _ _ _ hp) (fun r2 => ?_)
      obtain ⟨br, bl⟩ := r2
      simp only []
      exact tr_bindT _ _ _ (tr_markAsNeighbours hpq _ _ _) (fun _ => tr_markAsNeighbours hpq _ _ _)
    · exact tr_pure _ _ trivial

theorem tr_flipDiagonal (hpq : PQ P Q) (index : Nat) (edge : Edge) :
    Tr Q (flipDiagonal index edge : MeshM α Unit) (fun _ => True) := by
  unfold flipDiagonal
  refine tr_bind _ _ Q _ (tr_tgetM _ _) (fun tp htp => ?_)
  have hc := hpq.corners tp htp
  split
  · exact tr_panic _ _
  · split
    · exact tr_panic _ _
    · refine tr_bind _ _ Q _ (tr_tgetM _ _) (fun nb hnb => ?_)
      have hcn := hpq.corners nb hnb
      split
      · exact tr_panic _ _
      · refine tr_bind _ _ P _ (tr_ofRes _ _ (fun v hv => vertex_P _ _ v hv hc)) (fun vA hA => ?_)
        refine tr_bind _ _ P _ (tr_ofRes _ _ (fun v hv => vertex_P _ _ v hv hc)) (fun vB hB => ?_)
        refine tr_bind _ _ P _ (tr_ofRes _ _ (fun v hv => vertex_P _ _ v hv hc)) (fun vC hC => ?_)
        refine tr_bind _ _ P _ (tr_ofRes _ _ (fun v hv => opposite_P _ _ v hv hcn)) (fun vO hO => ?_)
        refine tr_bindT _ _ _ (tr_ofResT _) (fun _ => ?_)
        refine tr_bindT _ _ _ (tr_ofResT _) (fun _ => ?_)
        refine tr_bindT _ _ _ (tr_ofResT _) (fun _ => ?_)
        refine tr_bindT _ _ _ (tr_ofResT _) (fun _ => ?_)
        refine tr_bindT _ _ _ (tr_invalidate hpq _) (fun _ => ?_)
        refine tr_bindT _ _ _ (tr_invalidate hpq _) (fun _ => ?_)
        refine tr_bindT _ _ _ (tr_push hpq _ _ _ _ hA hO hC) (fun _ => ?_)
        refine tr_bindT _ _ _ (tr_push hpq _ _ _ _ hC hO hB) (fun _ => ?_)
        refine tr_bindT _ _ _ (tr_optMark hpq _ _ _) (fun _ => ?_)
        refine tr_bindT _ _ _ (tr_optConstrain hpq _ _ _ _) (fun _ => ?_)
        refine tr_bindT _ _ _ (tr_markAsNeighbours hpq _ _ _) (fun _ => ?_)
        refine tr_bindT _ _ _ (tr_optMark hpq _ _ _) (fun _ => ?_)
        refine tr_bindT _ _ _ (tr_optConstrain hpq _ _ _ _) (fun _ => ?_)
        refine tr_bindT _ _ _ (tr_optMark hpq _ _ _) (fun _ => ?_)
        refine tr_bindT _ _ _ (tr_optConstrain hpq _ _ _ _) (fun _ => ?_)
        refine tr_bindT _ _ _ (tr_optMark hpq _ _ _) (fun _ => ?_)
        exact tr_optConstrain hpq _ _ _ _

/-! ### `restore_delaunay`, `add_point_to_triangle`, `refine` -/

theorem tr_restoreTriLoop (hpq : PQ P Q) (mar : α) : ∀ (fuel i : Nat) (ac : Bool),
    Tr Q (restoreTriLoop mar fuel i ac : MeshM α Bool) (fun _ => True) := by
  intro fuel
  induction fuel with
  | zero => intro i ac; exact tr_pure _ _ trivial
  | succ f ih =>
    intro i ac
    unfold restoreTriLoop
    refine tr_bindT _ _ _ (tr_weak _ _ (tr_tgetM _ _)) (fun tp => ?_)
    split
    · exact ih _ _
    · simp only []
      split
      · exact ih _ _
      · refine tr_bindT _ _ _ (tr_readR _) (fun r => ?_)
        obtain ⟨be, x⟩ := r
        simp only []
        split
        · exact tr_bindT _ _ _ (tr_flipDiagonal hpq _ _) (fun _ => ih _ _)
        · exact ih _ _

theorem tr_restoreWhile (hpq : PQ P Q) (mar : α) (n : Nat) : ∀ (fuel : Nat) (ac : Bool),
    Tr Q (restoreWhile mar n fuel ac : MeshM α Unit) (fun _ => True) := by
  intro fuel
  induction fuel with
  | zero => intro ac; exact tr_pure _ _ trivial
  | succ f ih =>
    intro ac
    unfold restoreWhile
    split
    · exact tr_pure _ _ trivial
    · exact tr_bindT _ _ _ (tr_restoreTriLoop hpq _ _ _ _) (fun _ => ih _)

theorem tr_restoreDelaunay (hpq : PQ P Q) (mar : α) : Tr Q (restoreDelaunay mar : MeshM α Unit) (fun _ => True) := by
  unfold restoreDelaunay
  exact tr_bindT _ _ _ (tr_readR _) (fun _ => tr_restoreWhile hpq _ _ _ _)

theorem tr_addPointToTriangle (hpq : PQ P Q) (index : Nat) (p : V3 α) (loc : PointInTriangle) (hp : P p) :
    Tr Q (addPointToTriangle index p loc : MeshM α Bool) (fun _ => True) := by
  unfold addPointToTriangle
  refine tr_bindT _ _ _ (tr_weak _ _ (tr_tgetM _ _)) (fun tp => ?_)
  split
  · exact tr_panic _ _
  · split
    · exact tr_pure _ _ trivial
    · split
      · refine tr_bindT _ _ _ (tr_ofResT _) (fun _ => ?_)
        exact tr_bindT _ _ _ (tr_splitEdge hpq _ _ _ hp) (fun _ => tr_pure _ _ trivial)
      · split
        · exact tr_bindT _ _ _ (tr_splitTriangle hpq _ _ hp) (fun _ => tr_pure _ _ trivial)
        · exact tr_panic _ _

theorem longestEdgeLoop_P (t : Triangle α) (hp : P t.a ∧ P t.b ∧ P t.c) : ∀ (fuel j : Nat) (s : Segment α) (sI : Nat)
    (r : Segment α × Nat), P s.start ∧ P s.stop → longestEdgeLoop t fuel j s sI = .ok r → P r.1.start ∧ P r.1.stop := by
  intro fuel
  induction fuel with
  | zero => intro j s sI r hs h; simp only [longestEdgeLoop, Res.ok.injEq] at h; rw [← h]; exact hs
  | succ f ih =>
    intro j s sI r hs h
    unfold longestEdgeLoop at h
    cases h1 : t.segment j with
    | err e => simp [h1, Bind.bind, Res.bind] at h
    | panic q => simp [h1, Bind.bind, Res.bind] at h
    | ok sj =>
      simp only [h1, Bind.bind, Res.bind] at h
      split at h
      · exact ih _ _ _ _ (segment_P t j sj h1 hp) h
      · exact ih _ _ _ _ hs h

theorem tr_findPoint {β : Type} (c : V3 α) : Tr Q (findPoint c : MeshM α _) (fun _ => True) := by
  unfold findPoint; exact tr_readR _

theorem tr_refinePass (hpq : PQ P Q) (ma mar : α) : ∀ (fuel i : Nat) (ac : Bool),
    Tr Q (refinePass ma mar fuel i ac : MeshM α Bool) (fun _ => True) := by
  intro fuel
  induction fuel with
  | zero => intro i ac; exact tr_pure _ _ trivial
  | succ f ih =>
    intro i ac
    unfold refinePass
    refine tr_bind _ _ Q _ (tr_tgetM _ _) (fun tp htp => ?_)
    have hc := hpq.corners tp htp
    split
    · exact tr_panic _ _
    · simp only []
      split
      · exact ih _ _
      · split
        · refine tr_bind _ _ (fun r => P r.1.start ∧ P r.1.stop) _
            (tr_ofRes _ _ (fun r hr => longestEdgeLoop_P tp.triangle hc _ _ _ _ r ⟨hc.1, hc.2.1⟩ hr)) (fun r hr => ?_)
          obtain ⟨s, sI⟩ := r
          simp only []
          refine tr_bindT _ _ _ (tr_ofResT _) (fun _ => ?_)
          refine tr_bindT _ _ _ (tr_splitEdge hpq _ _ _ (hpq.mid s hr.1 hr.2)) (fun _ => ?_)
          exact tr_bindT _ _ _ (tr_restoreDelaunay hpq _) (fun _ => ih _ _)
        · split
          · refine tr_bindT _ _ _ (tr_readR _) (fun fp => ?_)
            split
            · refine tr_bindT _ _ _ (tr_addPointToTriangle hpq _ _ _ (hpq.cached tp htp).1) (fun did => ?_)
              split
              · exact tr_bindT _ _ _ (tr_restoreDelaunay hpq _) (fun _ => ih _ _)
              · exact ih _ _
            · refine tr_bind _ _ Q _ (tr_tgetM _ _) (fun tp2 htp2 => ?_)
              refine tr_bindT _ _ _ (tr_addPointToTriangle hpq _ _ _ (hpq.cached tp2 htp2).2) (fun did => ?_)
              split
              · exact tr_bindT _ _ _ (tr_restoreDelaunay hpq _) (fun _ => ih _ _)
              · exact ih _ _
          · exact ih _ _

theorem tr_refine (hpq : PQ P Q) (ma mar : α) : ∀ (fuel : Nat), Tr Q (refine ma mar fuel : MeshM α Unit) (fun _ => True) := by
  intro fuel
  induction fuel with
  | zero => unfold refine; exact tr_err _ _
  | succ f ih =>
    unfold refine
    refine tr_bindT _ _ _ (tr_readR _) (fun n => ?_)
    refine tr_bindT _ _ _ (tr_refinePass hpq _ _ _ _ _) (fun ac => ?_)
    split
    · exact ih
    · exact tr_pure _ _ trivial

/-! ### `mark_neighbourhouds` and the ear step of `from_polygon` -/

theorem tr_markEdgeLoop (hpq : PQ P Q) (a b : Nat) : ∀ (fuel e : Nat),
    Tr Q (markEdgeLoop a b fuel e : MeshM α Unit) (fun _ => True) := by
  intro fuel
  induction fuel with
  | zero => intro e; exact tr_pure _ _ trivial
  | succ f ih =>
    intro e
    unfold markEdgeLoop
    refine tr_bindT _ _ _ (tr_weak _ _ (tr_tgetM _ _)) (fun t => ?_)
    refine tr_bindT _ _ _ (tr_ofResT _) (fun _ => ?_)
    refine tr_bindT _ _ _ (tr_weak _ _ (tr_tgetM _ _)) (fun o => ?_)
    split
    · exact tr_bindT _ _ _ (tr_ofResT _) (fun _ => tr_markAsNeighbours hpq _ _ _)
    · exact ih _

theorem tr_markOtherLoop (hpq : PQ P Q) (a : Nat) : ∀ (fuel o : Nat),
    Tr Q (markOtherLoop a fuel o : MeshM α Unit) (fun _ => True) := by
  intro fuel
  induction fuel with
  | zero => intro o; exact tr_pure _ _ trivial
  | succ f ih =>
    intro o
    unfold markOtherLoop
    exact tr_bindT _ _ _ (tr_markEdgeLoop hpq _ _ _ _) (fun _ => ih _)

theorem tr_markThisLoop (hpq : PQ P Q) (n : Nat) : ∀ (fuel t : Nat),
    Tr Q (markThisLoop n fuel t : MeshM α Unit) (fun _ => True) := by
  intro fuel
  induction fuel with
  | zero => intro t; exact tr_pure _ _ trivial
  | succ f ih =>
    intro t
    unfold markThisLoop
    exact tr_bindT _ _ _ (tr_markOtherLoop hpq _ _ _) (fun _ => ih _)

theorem tr_markNeighbourhouds (hpq : PQ P Q) : Tr Q (markNeighbourhouds : MeshM α Unit) (fun _ => True) := by
  unfold markNeighbourhouds
  exact tr_bindT _ _ _ (tr_readR _) (fun _ => tr_markThisLoop hpq _ _ _)

theorem tr_constrainIfContained (hpq : PQ P Q) (poly : Polygon α) (s : Segment α) (la k : Nat) :
    Tr Q (constrainIfContained poly s la k : MeshM α Unit) (fun _ => True) := by
  unfold constrainIfContained
  refine tr_bindT _ _ _ (tr_ofResT _) (fun c => ?_)
  split
  · exact tr_bindT _ _ _ (tr_ofResT _) (fun _ => tr_tmodifyM _ _ _ (fun t ht => hpq.con t _ ht))
  · exact tr_pure _ _ trivial

/-! ### the outline only ever loses vertices -/

theorem closeSeam_subset : ∀ (fuel : Nat) (vs vs' : List (V3 α)), Loop.closeSeam fuel vs = .ok vs' → ∀ v ∈ vs', v ∈ vs := by
  intro fuel
  induction fuel with
  | zero => intro vs vs' h v hv; simp only [Loop.closeSeam, Res.ok.injEq] at h; rw [h]; exact hv
  | succ f ih =>
    intro vs vs' h v hv
    unfold Loop.closeSeam at h
    simp only [] at h
    split at h
    · cases h
    · cases h1 : vget vs (vs.length - 2) "loop3d.rs:close:a" with
      | err e => simp [h1, Bind.bind, Res.bind] at h
      | panic q => simp [h1, Bind.bind, Res.bind] at h
      | ok a =>
        cases h2 : vget vs (vs.length - 1) "loop3d.rs:close:b" with
        | err e => simp [h1, h2, Bind.bind, Res.bind] at h
        | panic q => simp [h1, h2, Bind.bind, Res.bind] at h
        | ok b =>
          cases h3 : vget vs 0 "loop3d.rs:close:c" with
          | err e => simp [h1, h2, h3, Bind.bind, Res.bind] at h
          | panic q => simp [h1, h2, h3, Bind.bind, Res.bind] at h
          | ok c =>
            cases h4 : a.isCollinearR b c with
            | err e => simp [h1, h2, h3, h4, Bind.bind, Res.bind] at h
            | panic q => simp [h1, h2, h3, h4, Bind.bind, Res.bind] at h
            | ok lc =>
              simp only [h1, h2, h3, h4, Bind.bind, Res.bind] at h
              split at h
              · exact List.mem_of_mem_dropLast (ih _ _ h v hv)
              · cases h5 : vget vs 1 "loop3d.rs:close:c2" with
                | err e => simp [h5] at h
                | panic q => simp [h5] at h
                | ok c2 =>
                  cases h6 : b.isCollinearR c c2 with
                  | err e => simp [h5, h6] at h
                  | panic q => simp [h5, h6] at h
                  | ok fc =>
                    simp only [h5, h6] at h
                    split at h
                    · exact List.mem_of_mem_eraseIdx (ih _ _ h v hv)
                    · simp only [Res.ok.injEq] at h; rw [h]; exact hv

theorem close_subset (l l' : Loop α) (h : l.close = (l', .ok ())) : ∀ v ∈ l'.vertices, v ∈ l.vertices := by
  rcases C04.close_cases l with ⟨e, he⟩ | ⟨_, _, vs', hcs, hv⟩
  · rw [he] at h; injection h with _ h2; cases h2
  · intro v hvm
    have : l' = l.close.1 := by rw [h]
    rw [this, hv] at hvm
    exact closeSeam_subset _ _ _ hcs v hvm

theorem push_subset (l : Loop α) (p : V3 α) : ∀ v ∈ (l.push p).1.vertices, v ∈ l.vertices ∨ v = p := by
  intro v hv
  rcases C04.push_cases l p with ⟨e, _, he⟩ | ⟨q, _, hq⟩ | ⟨_, vs', nrm', hpre, hc⟩
  · rw [he] at hv; exact Or.inl hv
  · rw [hq] at hv; exact Or.inl hv
  · rcases hc with ⟨_, hc⟩ | ⟨_, hc⟩
    · rw [hc] at hv; exact Or.inl (hpre.subset hv)
    · rw [hc] at hv
      simp only [List.mem_append, List.mem_singleton] at hv
      rcases hv with hv | hv
      · exact Or.inl (hpre.subset hv)
      · exact Or.inr hv

theorem sanitizePush_subset : ∀ (vs : List (V3 α)) (new new' : Loop α), Loop.sanitizePush vs new = .ok new' →
    ∀ v ∈ new'.vertices, v ∈ new.vertices ∨ v ∈ vs := by
  intro vs
  induction vs with
  | nil => intro new new' h v hv; simp only [Loop.sanitizePush, Res.ok.injEq] at h; rw [← h] at hv; exact Or.inl hv
  | cons x rest ih =>
    intro new new' h v hv
    unfold Loop.sanitizePush at h
    cases hp : new.push x with
    | mk n1 r =>
      rw [hp] at h
      cases r with
      | err e => cases h
      | panic q => cases h
      | ok u =>
        rcases ih n1 new' h v hv with h1 | h1
        · have : n1 = (new.push x).1 := by rw [hp]
          rw [this] at h1
          rcases push_subset new x v h1 with h2 | h2
          · exact Or.inl h2
          · exact Or.inr (by rw [h2]; exact List.mem_cons_self)
        · exact Or.inr (List.mem_cons_of_mem _ h1)

theorem sanitize_subset (l l' : Loop α) (h : l.sanitize = .ok l') : ∀ v ∈ l'.vertices, v ∈ l.vertices := by
  unfold Loop.sanitize at h
  cases hs : Loop.sanitizePush l.vertices Loop.new with
  | err e => simp [hs, Bind.bind, Res.bind] at h
  | panic q => simp [hs, Bind.bind, Res.bind] at h
  | ok new =>
    simp only [hs, Bind.bind, Res.bind] at h
    have hnew : ∀ v ∈ new.vertices, v ∈ l.vertices := by
      intro v hv
      rcases sanitizePush_subset _ _ _ hs v hv with h1 | h1
      · simp [Loop.new] at h1
      · exact h1
    split at h
    · cases hc : new.close with
      | mk n2 r =>
        rw [hc] at h
        cases r with
        | err e => cases h
        | panic q => cases h
        | ok u =>
          simp only [Res.ok.injEq] at h
          intro v hv
          rw [← h] at hv
          exact hnew v (close_subset new n2 hc v hv)
    · simp only [Res.ok.injEq] at h
      rw [← h]; exact hnew

theorem index_mem (l : Loop α) (i : Nat) (v : V3 α) (h : l.index i = .ok v) : v ∈ l.vertices := by
  unfold Loop.index at h
  split at h
  · cases h
  · rename_i hlt
    rw [C04.vget_lt (by omega)] at h
    simp only [Res.ok.injEq] at h
    rw [← h]; exact List.getElem_mem _

/-- the ear-clipping loop: with every outline vertex satisfying `P`, every slot of the mesh it returns satisfies `Q` -/
theorem fromPolygonLoop_allQ (hpq : PQ P Q) (poly : Polygon α) : ∀ (fuel : Nat) (L : Loop α) (t : Mesh α) (anchor count : Nat)
    (t' : Mesh α), (∀ v ∈ L.vertices, P v) → AllQ Q t → fromPolygonLoop poly fuel L t anchor count = .ok t' → AllQ Q t' := by
  intro fuel
  induction fuel with
  | zero => intro L t anchor count t' _ _ h; simp [fromPolygonLoop] at h
  | succ f ih =>
    intro L t anchor count t' hL ht h
    rw [fromPolygonLoop] at h
    simp only [] at h
    split at h
    · cases h
    · split at h
      · cases h
      · cases h
      · rename_i L1 hL1x
        have hL1 : ∀ v ∈ L1.vertices, P v := by
          split at hL1x
          · intro v hv; exact hL v (sanitize_subset L L1 hL1x v hv)
          · injection hL1x with hL1x; subst hL1x; exact hL
        split at h
        · split at h
          · rename_i t'' hm
            injection h with h
            subst h
            exact (tr_markNeighbourhouds hpq t _ _ hm ht).1
          · cases h
          · cases h
        · split at h
          · cases h
          · obtain ⟨v0, hv0, h1⟩ := C01T.res_bind_ok_inv _ _ _ h
            clear h
            obtain ⟨v1, hv1, h2⟩ := C01T.res_bind_ok_inv _ _ _ h1
            clear h1
            obtain ⟨v2, hv2, h3⟩ := C01T.res_bind_ok_inv _ _ _ h2
            clear h2
            obtain ⟨isLine, _, h4⟩ := C01T.res_bind_ok_inv _ _ _ h3
            clear h3
            obtain ⟨isDiag, _, h5⟩ := C01T.res_bind_ok_inv _ _ _ h4
            clear h4
            obtain ⟨isEar, hisEar, h⟩ := C01T.res_bind_ok_inv _ _ _ h5
            clear h5
            have hp0 := hL1 v0 (index_mem _ _ _ hv0)
            have hp1 := hL1 v1 (index_mem _ _ _ hv1)
            have hp2 := hL1 v2 (index_mem _ _ _ hv2)
            split at h
            · split at h
              · cases h
              · cases h
              · rename_i t1 hstep
                obtain ⟨L2, hrem, h6⟩ := C01T.res_bind_ok_inv _ _ _ h
                clear h
                have hL2 := C01T.remove_ok_inv _ _ _ hrem
                have htr : Tr Q (do
                    let _ ← Mesh.push v0 v1 v2 t.nTriangles
                    constrainIfContained poly (Segment.new v0 v1) t.nTriangles 0
                    constrainIfContained poly (Segment.new v1 v2) t.nTriangles 1
                    constrainIfContained poly (Segment.new v2 v0) t.nTriangles 2 : MeshM α Unit) (fun _ => True) := by
                  refine tr_bindT _ _ _ (tr_push hpq _ _ _ _ hp0 hp1 hp2) (fun _ => ?_)
                  refine tr_bindT _ _ _ (tr_constrainIfContained hpq _ _ _ _) (fun _ => ?_)
                  exact tr_bindT _ _ _ (tr_constrainIfContained hpq _ _ _ _) (fun _ => tr_constrainIfContained hpq _ _ _ _)
                have ht1 := (htr t t1 _ hstep ht).1
                refine ih L2 t1 anchor _ t' ?_ ht1 h6
                intro v hv
                rw [hL2] at hv
                exact hL1 v (List.mem_of_mem_eraseIdx hv)
            · exact ih L1 t (anchor + 1) _ t' hL1 ht h

/-- `from_polygon`: with every vertex of the closed merged outline satisfying `P`, every slot of the mesh satisfies `Q` -/
theorem fromPolygon_allQ (hpq : PQ P Q) (poly : Polygon α) (t' : Mesh α)
    (hL : ∀ L0, poly.tryGetClosedLoop = .ok L0 → ∀ v ∈ L0.vertices, P v) (h : fromPolygon poly = .ok t') : AllQ Q t' := by
  unfold fromPolygon at h
  obtain ⟨L0, hL0, h1⟩ := C01T.res_bind_ok_inv _ _ _ h
  clear h
  split at h1
  · cases h1
  · cases h1
  · rename_i L hclose
    refine fromPolygonLoop_allQ hpq poly _ L _ _ _ t' ?_ ?_ h1
    · intro v hv; exact hL L0 hL0 v (close_subset L0 L hclose v hv)
    · intro i t ht; simp [withCapacity] at ht

/-- **`mesh_polygon`**: the same after any amount of refinement -/
theorem meshPolygon_allQ (hpq : PQ P Q) (poly : Polygon α) (ma mar : α) (fuel : Nat) (t' : Mesh α)
    (hL : ∀ L0, poly.tryGetClosedLoop = .ok L0 → ∀ v ∈ L0.vertices, P v)
    (h : meshPolygon poly ma mar fuel = .ok t') : AllQ Q t' := by
  unfold meshPolygon at h
  obtain ⟨t0, ht0, h1⟩ := C01T.res_bind_ok_inv _ _ _ h
  clear h
  split at h1
  · rename_i t1 hr
    injection h1 with h1
    subst h1
    exact (tr_refine hpq ma mar fuel t0 _ _ hr (fromPolygon_allQ hpq poly t0 hL ht0)).1
  · cases h1
  · cases h1

/-! ### the merged outline of `try_get_closed_loop` only has vertices of the polygon's own loops -/

theorem pushQ_P (aux aux' : Loop α) (p : V3 α) (site : String) (ha : ∀ v ∈ aux.vertices, P v) (hp : P p)
    (h : Polygon.pushQ aux p site = .ok aux') : ∀ v ∈ aux'.vertices, P v := by
  unfold Polygon.pushQ at h
  cases hpp : aux.push p with
  | mk a1 r =>
    rw [hpp] at h
    cases r with
    | err e => cases h
    | panic q => cases h
    | ok u =>
      simp only [Res.ok.injEq] at h
      intro v hv
      have : aux' = (aux.push p).1 := by rw [hpp, h]
      rw [this] at hv
      rcases push_subset aux p v hv with h1 | h1
      · exact ha v h1
      · rw [h1]; exact hp

theorem addInnerVertices_P (il : Loop α) (same : Bool) (s n : Nat) (hil : ∀ v ∈ il.vertices, P v) :
    ∀ (fuel j : Nat) (aux aux' : Loop α), (∀ v ∈ aux.vertices, P v) →
      Polygon.addInnerVertices il same s n fuel j aux = .ok aux' → ∀ v ∈ aux'.vertices, P v := by
  intro fuel
  induction fuel with
  | zero => intro j aux aux' ha h; simp only [Polygon.addInnerVertices, Res.ok.injEq] at h; rw [← h]; exact ha
  | succ f ih =>
    intro j aux aux' ha h
    unfold Polygon.addInnerVertices at h
    split at h
    · cases h
    · obtain ⟨iv, hiv, h1⟩ := C01T.res_bind_ok_inv _ _ _ h
      clear h
      obtain ⟨aux1, hpq, h2⟩ := C01T.res_bind_ok_inv _ _ _ h1
      clear h1
      have hpiv : P iv := hil iv (index_mem _ _ _ hiv)
      exact ih _ aux1 aux' (pushQ_P aux aux1 _ _ ha (by simpa using hpiv) hpq) h2

theorem buildAux_P (inner : List (Loop α)) (N : V3 α) (m ml s : Nat) (hin : ∀ il ∈ inner, ∀ v ∈ il.vertices, P v) :
    ∀ (ext : List (V3 α)) (i : Nat) (aux aux' : Loop α), (∀ v ∈ ext, P v) → (∀ v ∈ aux.vertices, P v) →
      Polygon.buildAux inner N m ml s ext i aux = .ok aux' → ∀ v ∈ aux'.vertices, P v := by
  intro ext
  induction ext with
  | nil => intro i aux aux' _ ha h; simp only [Polygon.buildAux, Res.ok.injEq] at h; rw [← h]; exact ha
  | cons e rest ih =>
    intro i aux aux' he ha h
    have hrest : ∀ v ∈ rest, P v := fun v hv => he v (List.mem_cons_of_mem _ hv)
    unfold Polygon.buildAux at h
    cases h1 : Polygon.pushQ aux e "polygon3d.rs:get_closed_loop:push-ext.unwrap" with
    | err e' => simp [h1, Bind.bind, Res.bind] at h
    | panic q => simp [h1, Bind.bind, Res.bind] at h
    | ok aux1 =>
      have ha1 := pushQ_P aux aux1 _ _ ha (he e List.mem_cons_self) h1
      simp only [h1, Bind.bind, Res.bind] at h
      by_cases hi : (i == m) = true
      · simp only [hi, if_true] at h
        cases hg : inner[ml]? with
        | none => simp [hg] at h
        | some il =>
          have hmem : il ∈ inner := List.mem_of_getElem? hg
          simp only [hg] at h
          cases h6 : Polygon.addInnerVertices il (N.isSameDirection il.normal) s il.len (il.len + 1) 0 aux1 with
          | err e' => simp [h6] at h
          | panic q => simp [h6] at h
          | ok aux3 =>
            have ha3 := addInnerVertices_P il _ _ _ (hin il hmem) _ _ aux1 aux3 ha1 h6
            simp only [h6] at h
            cases h7 : Polygon.pushQ aux3 e "polygon3d.rs:get_closed_loop:push-return.unwrap" with
            | err e' => simp [h7] at h
            | panic q => simp [h7] at h
            | ok aux2 =>
              simp only [h7] at h
              exact ih (i + 1) aux2 aux' hrest (pushQ_P aux3 aux2 _ _ ha3 (he e List.mem_cons_self) h7) h
      · simp only [hi, Bool.false_eq_true, if_false] at h
        exact ih (i + 1) aux1 aux' hrest ha1 h

theorem closedLoopIter_P (pg : Polygon α) (N : V3 α) (hin : ∀ il ∈ pg.inner, ∀ v ∈ il.vertices, P v) :
    ∀ (fuel : Nat) (st : Polygon.ClosedLoopState α) (L : Loop α), (∀ v ∈ st.retLoop.vertices, P v) →
      Polygon.closedLoopIter pg N fuel st = .ok L → ∀ v ∈ L.vertices, P v := by
  intro fuel
  induction fuel with
  | zero => intro st L hs h; simp only [Polygon.closedLoopIter, Res.ok.injEq] at h; rw [← h]; exact hs
  | succ f ih =>
    intro st L hs h
    unfold Polygon.closedLoopIter at h
    simp only [] at h
    split at h
    · cases h
    · cases h
    · split at h
      · cases h
      · cases h
      · rename_i aux hb
        exact ih _ L (buildAux_P pg.inner N _ _ _ hin _ _ _ aux hs (by simp [Loop.new]) hb) h

/-- every vertex of the merged outline is a vertex of the outer loop or of a hole -/
theorem tryGetClosedLoop_P (pg : Polygon α) (L : Loop α) (hout : ∀ v ∈ pg.outer.vertices, P v)
    (hin : ∀ il ∈ pg.inner, ∀ v ∈ il.vertices, P v) (h : pg.tryGetClosedLoop = .ok L) : ∀ v ∈ L.vertices, P v := by
  unfold Polygon.tryGetClosedLoop at h
  exact closedLoopIter_P pg _ hin _ _ L (by simpa [Loop.open] using hout) h

/-! ### no Steiner points without refinement -/
open C01T

/-- every corner of every ear of a trace is a vertex of the outline the trace starts from -/
theorem earTrace_corners (P : V3 α → Prop) : ∀ (L : Loop α) (ts : List (V3 α × V3 α × V3 α)) (ss),
    EarTrace L ts ss → (∀ v ∈ L.vertices, P v) → ∀ t ∈ ts, P t.1 ∧ P t.2.1 ∧ P t.2.2 := by
  intro L ts ss h
  induction h with
  | done L _ => intro _ t ht; cases ht
  | sanitize L L' ts ss hs _ ih =>
    intro hL t ht
    exact ih (fun v hv => hL v (sanitize_subset L L' hs v hv)) t ht
  | ear L anchor v0 v1 v2 ts ss _ h0 h1 h2 _ _ ih =>
    intro hL t ht
    rcases List.mem_cons.mp ht with rfl | ht
    · exact ⟨hL v0 (List.mem_of_getElem? h0), hL v1 (List.mem_of_getElem? h1), hL v2 (List.mem_of_getElem? h2)⟩
    · exact ih (fun v hv => hL v (List.mem_of_mem_eraseIdx hv)) t ht

/-- **the unrefined triangulation has no Steiner points**: every corner of every triangle `from_polygon` returns is a vertex of
    the polygon's outer loop or of one of its holes (any number type) -/
theorem fromPolygon_corners_are_vertices (poly : Polygon α) (t' : Mesh α) (h : fromPolygon poly = .ok t') :
    ∀ tri ∈ t'.getTrilist, ∀ v, (v = tri.a ∨ v = tri.b ∨ v = tri.c) →
      v ∈ poly.outer.vertices ∨ ∃ il ∈ poly.inner, v ∈ il.vertices := by
  obtain ⟨L0, L, ts, ss, hL0, hclose, htr, hg⟩ := fromPolygon_trace poly t' h
  let P : V3 α → Prop := fun v => v ∈ poly.outer.vertices ∨ ∃ il ∈ poly.inner, v ∈ il.vertices
  have hP0 : ∀ v ∈ L0.vertices, P v :=
    tryGetClosedLoop_P (P := P) poly L0 (fun v hv => Or.inl hv) (fun il hil v hv => Or.inr ⟨il, hil, hv⟩) hL0
  have hPL : ∀ v ∈ L.vertices, P v := fun v hv => hP0 v (close_subset L0 L hclose v hv)
  have hts := earTrace_corners P L ts ss htr hPL
  intro tri htri v hv
  unfold Mesh.getTrilist at htri
  simp only [List.mem_map, Array.mem_toList_iff] at htri
  obtain ⟨tp, htp, rfl⟩ := htri
  have hmem : (tp.triangle.a, tp.triangle.b, tp.triangle.c) ∈ ts := by
    rw [← hg]
    simp only [geom, List.mem_map, Array.mem_toList_iff]
    exact ⟨tp, htp, rfl⟩
  obtain ⟨ha, hb, hc⟩ := hts _ hmem
  rcases hv with rfl | rfl | rfl
  · exact ha
  · exact hb
  · exact hc
end generic

/-! ## over ℝ: the plane `v · N = d` -/
noncomputable section
open C19

theorem triple_dot1 (u v N : V3 ℝ) : ((u.cross v).cross u).dot N = v.dot N * u.lengthSquared - u.dot N * (v.dot u) := by
  vec_real; ring
theorem triple_dot2 (u v N : V3 ℝ) : (v.cross (u.cross v)).dot N = u.dot N * v.lengthSquared - v.dot N * (u.dot v) := by
  vec_real; ring
theorem sub_dot (a b N : V3 ℝ) : (b - a).dot N = b.dot N - a.dot N := by vec_real; ring
theorem add_dot (a b N : V3 ℝ) : (a + b).dot N = a.dot N + b.dot N := by vec_real; ring

/-- the circumcentre of a triangle lies in every plane that contains its three corners -/
theorem circumcenter_in_plane (t : Triangle ℝ) (N : V3 ℝ) (d : ℝ) (ha : t.a.dot N = d) (hb : t.b.dot N = d)
    (hc : t.c.dot N = d) : t.circumcenter.dot N = d := by
  obtain ⟨a, b, c, nrm, ar⟩ := t
  simp only [] at ha hb hc
  obtain ⟨w, hw⟩ : ∃ w, w = ((((b - a).cross (c - a)).cross (b - a)).smul (c - a).lengthSquared
        + ((c - a).cross ((b - a).cross (c - a))).smul (b - a).lengthSquared).sdiv
        (2 * ((b - a).cross (c - a)).lengthSquared) := ⟨_, rfl⟩
  have e : (Triangle.circumcenter ⟨a, b, c, nrm, ar⟩) = a + w := by
    rw [hw]; simp only [Triangle.circumcenter, length_mul_self]; num_real
  have hu : (b - a).dot N = 0 := by rw [sub_dot, ha, hb]; ring
  have hv : (c - a).dot N = 0 := by rw [sub_dot, ha, hc]; ring
  rw [e, add_dot, ha, hw, combo_dot, triple_dot1, triple_dot2, hu, hv]
  ring

theorem centroid_in_plane (t : Triangle ℝ) (N : V3 ℝ) (d : ℝ) (ha : t.a.dot N = d) (hb : t.b.dot N = d)
    (hc : t.c.dot N = d) : t.centroid.dot N = d := by
  rw [centroid_mean]
  vec_real_at ha
  vec_real_at hb
  vec_real_at hc
  vec_real
  linarith

theorem midpoint_in_plane (s : Segment ℝ) (N : V3 ℝ) (d : ℝ) (ha : s.start.dot N = d) (hb : s.stop.dot N = d) :
    s.midpoint.dot N = d := by
  unfold Segment.midpoint
  vec_real_at ha
  vec_real_at hb
  vec_real
  linarith

/-- a point of the plane `v · N = d` -/
def InPl (N : V3 ℝ) (d : ℝ) (v : V3 ℝ) : Prop := v.dot N = d

/-- a slot whose corners and cached circumcentre and centroid lie in the plane -/
def PieceInPl (N : V3 ℝ) (d : ℝ) (t : TriPiece ℝ) : Prop :=
  InPl N d t.triangle.a ∧ InPl N d t.triangle.b ∧ InPl N d t.triangle.c ∧ InPl N d t.circumcenter ∧ InPl N d t.centroid

theorem tripiece_new_cached (a b c : V3 ℝ) (i : Nat) (t : TriPiece ℝ) (h : TriPiece.new a b c i = .ok t) :
    t.circumcenter = t.triangle.circumcenter ∧ t.centroid = t.triangle.centroid := by
  unfold TriPiece.new at h
  cases ht : Triangle.new a b c with
  | err e => rw [ht] at h; cases h
  | panic e => rw [ht] at h; cases h
  | ok tri =>
    rw [ht] at h
    simp only [Bind.bind, Res.bind] at h
    cases har : tri.aspectRatioR with
    | err e => rw [har] at h; cases h
    | panic e => rw [har] at h; cases h
    | ok ar =>
      rw [har] at h
      simp only [Res.ok.injEq] at h
      rw [← h]
      exact ⟨rfl, rfl⟩

theorem pq_plane (N : V3 ℝ) (d : ℝ) : PQ (InPl N d) (PieceInPl N d) where
  setN := by intro t e i h; cases e <;> exact h
  con := by intro t e h; cases e <;> exact h
  inv := by intro t h; exact h
  corners := by intro t h; exact ⟨h.1, h.2.1, h.2.2.1⟩
  cached := by intro t h; exact ⟨h.2.2.2.1, h.2.2.2.2⟩
  mid := by intro s ha hb; exact midpoint_in_plane s N d ha hb
  new := by
    intro a b c i tp ha hb hc h
    obtain ⟨e1, e2, e3⟩ := C01T.tripiece_new_abc a b c i tp h
    obtain ⟨e4, e5⟩ := tripiece_new_cached a b c i tp h
    have h1 : tp.triangle.a.dot N = d := by rw [e1]; exact ha
    have h2 : tp.triangle.b.dot N = d := by rw [e2]; exact hb
    have h3 : tp.triangle.c.dot N = d := by rw [e3]; exact hc
    refine ⟨h1, h2, h3, ?_, ?_⟩
    · show tp.circumcenter.dot N = d
      rw [e4]; exact circumcenter_in_plane _ N d h1 h2 h3
    · show tp.centroid.dot N = d
      rw [e5]; exact centroid_in_plane _ N d h1 h2 h3

/-- **every triangle `mesh_polygon` returns lies in the polygon's plane** (exact arithmetic): if every vertex of the outer loop
    and of every hole satisfies `v · N = d`, so does every corner of every triangle of every mesh that `from_polygon` followed by
    any amount of `refine` returns — ears are cut at outline vertices, and `refine` only ever inserts edge midpoints,
    circumcentres and centroids of triangles that are already in the plane -/
theorem meshPolygon_in_plane (poly : Polygon ℝ) (N : V3 ℝ) (d : ℝ) (ma mar : ℝ) (fuel : Nat) (t' : Mesh ℝ)
    (hout : ∀ v ∈ poly.outer.vertices, v.dot N = d) (hin : ∀ il ∈ poly.inner, ∀ v ∈ il.vertices, v.dot N = d)
    (h : meshPolygon poly ma mar fuel = .ok t') :
    ∀ tri ∈ t'.getTrilist, tri.a.dot N = d ∧ tri.b.dot N = d ∧ tri.c.dot N = d := by
  have hall := meshPolygon_allQ (pq_plane N d) poly ma mar fuel t'
    (fun L0 hL0 => tryGetClosedLoop_P (P := InPl N d) poly L0 hout hin hL0) h
  intro tri htri
  unfold Mesh.getTrilist at htri
  simp only [List.mem_map, Array.mem_toList_iff] at htri
  obtain ⟨tp, htp, rfl⟩ := htri
  obtain ⟨i, hi, hget⟩ := Array.mem_iff_getElem.mp htp
  have := hall i tp (by rw [Array.getElem?_eq_getElem hi, hget])
  exact ⟨this.1, this.2.1, this.2.2.1⟩

/-- the same for the unrefined triangulation -/
theorem fromPolygon_in_plane (poly : Polygon ℝ) (N : V3 ℝ) (d : ℝ) (t' : Mesh ℝ)
    (hout : ∀ v ∈ poly.outer.vertices, v.dot N = d) (hin : ∀ il ∈ poly.inner, ∀ v ∈ il.vertices, v.dot N = d)
    (h : fromPolygon poly = .ok t') :
    ∀ tri ∈ t'.getTrilist, tri.a.dot N = d ∧ tri.b.dot N = d ∧ tri.c.dot N = d := by
  have hall := fromPolygon_allQ (pq_plane N d) poly t'
    (fun L0 hL0 => tryGetClosedLoop_P (P := InPl N d) poly L0 hout hin hL0) h
  intro tri htri
  unfold Mesh.getTrilist at htri
  simp only [List.mem_map, Array.mem_toList_iff] at htri
  obtain ⟨tp, htp, rfl⟩ := htri
  obtain ⟨i, hi, hget⟩ := Array.mem_iff_getElem.mp htp
  have := hall i tp (by rw [Array.getElem?_eq_getElem hi, hget])
  exact ⟨this.1, this.2.1, this.2.2.1⟩

/-- the merged outline of `try_get_closed_loop` lies in the polygon's plane -/
theorem tryGetClosedLoop_in_plane (poly : Polygon ℝ) (N : V3 ℝ) (d : ℝ) (L : Loop ℝ)
    (hout : ∀ v ∈ poly.outer.vertices, v.dot N = d) (hin : ∀ il ∈ poly.inner, ∀ v ∈ il.vertices, v.dot N = d)
    (h : poly.tryGetClosedLoop = .ok L) : ∀ v ∈ L.vertices, v.dot N = d :=
  tryGetClosedLoop_P (P := InPl N d) poly L hout hin h
end
end G3d.C01P
