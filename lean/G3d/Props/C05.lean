import G3d.Props.C04Real
import G3d.Model.Polygon
/-!
# C05 — point-in-loop / point-in-polygon: structure of the answer

Generic in the scalar type:
* `testPoint_open`, `testPoint_not_coplanar` — an open loop is an `Err`; a point that fails the coplanarity gate is outside.
* `testPointLoop_on_edge`, `testPointLoop_parity` — for an in-plane point the answer is `true` as soon as an edge contains the
  point (`Segment3D::contains_point`), and otherwise it is the parity of the number of edges the test ray crosses
  (`crossingIncrement`, each edge counted at most once): **inside ⇔ odd**.
* `poly_testPoint_eq` — for a polygon: inside the outer loop and in none of the holes.
* `testPoint_noPanic` — never a panic on a loop with at least two vertices (every closed loop the API builds has ≥ 3: C04).
Over ℝ: `off_plane_outside` — a point with `|n·(v₀ − p)| ≥ 1e-7` is outside, whatever the outline.
That an odd crossing count means "geometrically inside" for every simple outline (a Jordan-curve statement), and the choice
of ray, are not proved: they are judged by the exact winding-number oracle on every run (see DESIGN).
-/
namespace G3d.C05
open G3d Num C04
set_option linter.unusedSectionVars false
variable {α : Type} [Num α]

theorem testPoint_open (l : Loop α) (p : V3 α) (h : l.closed = false) : l.testPoint p = .err "loop3d.rs:test_point:open" := by
  simp [Loop.testPoint, h]

/-- **a point off the plane is outside** (whatever the outline) -/
theorem testPoint_not_coplanar (l : Loop α) (p : V3 α) (hc : l.closed = true) (h : l.isCoplanar p = .ok false) :
    l.testPoint p = .ok false := by
  simp [Loop.testPoint, hc, h]

/-- edge `j` of the outline -/
def edge (l : Loop α) (j : Nat) : Segment α :=
  Segment.new (l.vertices.getD j ⟨0, 0, 0⟩) (l.vertices.getD ((j + 1) % l.vertices.length) ⟨0, 0, 0⟩)

/-- number of edges `j ∈ [i, i + fuel)` the test ray crosses -/
def crossings (l : Loop α) (d : V3 α) (ray : Segment α) : Nat → Nat → Nat
  | 0, _ => 0
  | fuel + 1, i => Loop.crossingIncrement l.normal d ray (edge l i) + crossings l d ray fuel (i + 1)

theorem vget_getD (vs : List (V3 α)) (i : Nat) (h : i < vs.length) (site : String) :
    vget vs i site = .ok (vs.getD i ⟨0, 0, 0⟩) := by
  rw [vget_lt h]; simp [List.getD_eq_getElem?_getD, List.getElem?_eq_getElem h]

/-- **no edge contains the point ⇒ the answer is the parity of the crossing count** -/
theorem testPointLoop_parity (l : Loop α) (point d : V3 α) (ray : Segment α) (hpos : 0 < l.vertices.length) :
    ∀ (fuel i nCross : Nat), i + fuel ≤ l.vertices.length →
      (∀ j, i ≤ j → j < i + fuel → (edge l j).containsPoint point = .ok false) →
      Loop.testPointLoop l point d ray l.vertices.length fuel i nCross
        = .ok (decide ((nCross + crossings l d ray fuel i) % 2 = 1)) := by
  intro fuel
  induction fuel with
  | zero =>
    intro i nCross _ _
    simp only [Loop.testPointLoop, crossings, Nat.add_zero]
    congr 1
    by_cases h : nCross % 2 = 1
    · have : nCross ≠ 0 := by omega
      simp [h, this]
    · have : nCross % 2 = 0 := by omega
      simp [this]
  | succ f ih =>
    intro i nCross hle hno
    have hi : i < l.vertices.length := by omega
    have hm : (i + 1) % l.vertices.length < l.vertices.length := Nat.mod_lt _ hpos
    have he := hno i (Nat.le_refl _) (by omega)
    unfold edge at he
    simp only [Loop.testPointLoop, vget_getD _ _ hi, vget_getD _ _ hm, bind, Res.bind, he, Bool.false_eq_true, if_false]
    rw [ih (i + 1) _ (by omega) (fun j h1 h2 => hno j (by omega) (by omega))]
    simp only [crossings, edge]
    congr 3
    omega

/-- **the first edge that contains the point decides: inside** -/
theorem testPointLoop_on_edge (l : Loop α) (point d : V3 α) (ray : Segment α) (hpos : 0 < l.vertices.length) :
    ∀ (fuel i nCross k : Nat), i ≤ k → k < i + fuel → i + fuel ≤ l.vertices.length →
      (∀ j, i ≤ j → j < k → (edge l j).containsPoint point = .ok false) →
      (edge l k).containsPoint point = .ok true →
      Loop.testPointLoop l point d ray l.vertices.length fuel i nCross = .ok true := by
  intro fuel
  induction fuel with
  | zero => intro i nCross k h1 h2; omega
  | succ f ih =>
    intro i nCross k hik hk hle hno hon
    have hi : i < l.vertices.length := by omega
    have hm : (i + 1) % l.vertices.length < l.vertices.length := Nat.mod_lt _ hpos
    by_cases hki : k = i
    · subst hki
      unfold edge at hon
      simp only [Loop.testPointLoop, vget_getD _ _ hi, vget_getD _ _ hm, bind, Res.bind, hon, if_true]
    · have he := hno i (Nat.le_refl _) (by omega)
      unfold edge at he
      simp only [Loop.testPointLoop, vget_getD _ _ hi, vget_getD _ _ hm, bind, Res.bind, he, Bool.false_eq_true, if_false]
      exact ih (i + 1) _ k (by omega) (by omega) (by omega) (fun j h1 h2 => hno j (by omega) h2) hon

/-! ## polygons: inside the outline and in no hole -/

/-- "the point tests inside this hole" -/
def inHole (lp : Loop α) (p : V3 α) : Bool :=
  match lp.testPoint p with
  | .ok true => true
  | _ => false

theorem testPointInner_eq (p : V3 α) : ∀ (holes : List (Loop α)),
    (∀ lp ∈ holes, ∃ b, lp.testPoint p = .ok b) →
      Polygon.testPointInner holes p = .ok (!(holes.any (inHole · p))) := by
  intro holes
  induction holes with
  | nil => intro _; rfl
  | cons lp rest ih =>
    intro h
    obtain ⟨b, hb⟩ := h lp (by simp)
    unfold Polygon.testPointInner
    cases b with
    | true => simp [hb, inHole]
    | false =>
      simp only [hb, Bool.false_eq_true, if_false]
      rw [ih (fun lp' hl => h lp' (by simp [hl]))]
      simp [inHole, hb]

/-- **a polygon contains the point iff its outer loop does and none of its holes does** -/
theorem poly_testPoint_eq (pg : Polygon α) (p : V3 α) (o : Bool) (ho : pg.outer.testPoint p = .ok o)
    (hh : ∀ lp ∈ pg.inner, ∃ b, lp.testPoint p = .ok b) :
    pg.testPoint p = .ok (o && !(pg.inner.any (inHole · p))) := by
  unfold Polygon.testPoint
  simp only [ho, bind, Res.bind]
  cases o with
  | false => simp
  | true => simp [testPointInner_eq p pg.inner hh]

/-! ## never a panic -/

theorem containsPoint_noPanic (s : Segment α) (p : V3 α) : NoPanic (s.containsPoint p) := by
  unfold Segment.containsPoint V3.isCollinearR
  cases p.isCollinear s.start s.stop with
  | none => exact noPanic_err _
  | some b =>
    cases b with
    | false => exact noPanic_ok _
    | true =>
      simp only []
      split
      · exact noPanic_ok _
      · split
        · exact noPanic_ok _
        · split
          · exact noPanic_ok _
          · split
            · exact noPanic_ok _
            · exact noPanic_err _

theorem testPointLoop_noPanic (l : Loop α) (point d : V3 α) (ray : Segment α) (hpos : 0 < l.vertices.length) :
    ∀ (fuel i nCross : Nat), i + fuel ≤ l.vertices.length →
      NoPanic (Loop.testPointLoop l point d ray l.vertices.length fuel i nCross) := by
  intro fuel
  induction fuel with
  | zero => intro i nCross _; simp [Loop.testPointLoop]; exact noPanic_ok _
  | succ f ih =>
    intro i nCross hle
    have hi : i < l.vertices.length := by omega
    have hm : (i + 1) % l.vertices.length < l.vertices.length := Nat.mod_lt _ hpos
    simp only [Loop.testPointLoop, vget_getD _ _ hi, vget_getD _ _ hm, bind, Res.bind]
    have hc := containsPoint_noPanic (Segment.new (l.vertices.getD i ⟨0, 0, 0⟩)
      (l.vertices.getD ((i + 1) % l.vertices.length) ⟨0, 0, 0⟩)) point
    cases hcp : (Segment.new (l.vertices.getD i ⟨0, 0, 0⟩)
      (l.vertices.getD ((i + 1) % l.vertices.length) ⟨0, 0, 0⟩)).containsPoint point with
    | err e => exact noPanic_err _
    | panic q => exact absurd hcp (hc q)
    | ok b =>
      cases b with
      | true => simp only [if_true]; exact noPanic_ok _
      | false => simp only [Bool.false_eq_true, if_false]; exact ih (i + 1) _ (by omega)

/-- **`test_point` never panics** on a loop with at least two vertices -/
theorem testPoint_noPanic (l : Loop α) (p : V3 α) (h2 : 2 ≤ l.vertices.length) : NoPanic (l.testPoint p) := by
  unfold Loop.testPoint
  split
  · exact noPanic_err _
  · have hc := isCoplanar_noPanic l p
    cases hcp : l.isCoplanar p with
    | err e => exact noPanic_err _
    | panic q => exact absurd hcp (hc q)
    | ok b =>
      cases b with
      | false => exact noPanic_ok _
      | true =>
        have h0 : 0 < l.vertices.length := by omega
        have h1 : 1 < l.vertices.length := by omega
        simp only [vget_lt h0, vget_lt h1, bind, Res.bind]
        exact testPointLoop_noPanic l p _ _ h0 _ 0 0 (by omega)

/-! ## over ℝ -/
noncomputable section

/-- **points off the plane are always outside**: `|n·(v₀ − p)| ≥ 1e-7` ⇒ `false`, for any closed loop with a cached normal -/
theorem off_plane_outside (l : Loop ℝ) (p v0 : V3 ℝ) (rest : List (V3 ℝ)) (hv : l.vertices = v0 :: rest)
    (hz : l.normal.isZero = false) (hc : l.closed = true) (hoff : 1e-7 ≤ |l.normal.dot (v0 - p)|) :
    l.testPoint p = .ok false := by
  apply testPoint_not_coplanar l p hc
  rw [isCoplanar_real l p v0 rest hv hz]
  congr 1
  simp only [decide_eq_false_iff_not, not_lt]; exact hoff

end
end G3d.C05
