import G3d.Props.C08Split
/-!
# C08 — fixed-edge marks (constraints) through the refinement steps (model of `triangulation3d.rs`, any number type)

`cgeom m` lists, slot by slot, corners and the three fixed-edge marks of the live triangles.
* `keepsC_markAsNeighbours`: linking triangles never touches a mark, a corner or the live set;
* `push_cgeom`: an `Ok` `push` returns the index of a slot that now holds the new triangle with NO edge marked, every live slot
  unchanged; `optConstrain_cgeom`: `if c { triangles[i].constrain(e) }` sets exactly that mark;
* `splitTriangle_flags`: after an `Ok` `split_triangle(i, p)` the three new triangles sit in three different slots, each carrying
  on its outer edge exactly the mark the old triangle had there, inner edges unmarked;
* `processHemisphere_flags`: each side of an `Ok` `split_edge` leaves two new triangles in two different slots, both halves of
  the split edge carrying its mark, the outer edges their old marks, the new inner edge unmarked;
* `flipDiagonal_flags`: after an `Ok` `flip_diagonal` the two new triangles carry on their four outer edges exactly the marks
  those edges had in the triangle they came from (two from the flipped triangle, two from ITS NEIGHBOUR), the new diagonal
  unmarked — so an edge of the polygon's outline or of a hole stays fixed through every flip and every interior split.
-/
namespace G3d.C08S
open G3d Num Mesh MeshM
set_option linter.unusedSectionVars false
variable {α : Type} [Num α]

/-! ## constraint flags ("this edge lies on the polygon's outline or on a hole": never to be flipped) -/

/-- corners and the three fixed-edge marks of a live slot -/
def slotC (t : TriPiece α) : Option ((V3 α × V3 α × V3 α) × (Bool × Bool × Bool)) :=
  if t.valid then some ((t.triangle.a, t.triangle.b, t.triangle.c), (t.c0, t.c1, t.c2)) else none

def cgeom (m : Mesh α) : List (Option ((V3 α × V3 α × V3 α) × (Bool × Bool × Bool))) := m.triangles.toList.map slotC

theorem cgeom_getElem? (m : Mesh α) (i : Nat) : (cgeom m)[i]? = (m.triangles[i]?).map slotC := by
  simp [cgeom]

theorem cgeom_length (m : Mesh α) : (cgeom m).length = m.triangles.size := by simp [cgeom]

/-- a step that changes neither the live set, nor corners, nor fixed-edge marks -/
def KeepsC {β : Type} (x : MeshM α β) : Prop := ∀ m, cgeom (x m).1 = cgeom m

theorem keepsC_pure {β : Type} (b : β) : KeepsC (MeshM.pure b : MeshM α β) := fun _ => rfl
theorem keepsC_ofRes {β : Type} (r : Res β) : KeepsC (ofRes r : MeshM α β) := fun _ => rfl
theorem keepsC_readR {β : Type} (f : Mesh α → Res β) : KeepsC (readR f) := fun _ => rfl
theorem keepsC_err {β : Type} (k : String) : KeepsC (MeshM.err k : MeshM α β) := fun _ => rfl
theorem keepsC_panic {β : Type} (k : String) : KeepsC (MeshM.panic k : MeshM α β) := fun _ => rfl
theorem keepsC_tgetM (i : Nat) (s : String) : KeepsC (tgetM i s : MeshM α (TriPiece α)) := fun _ => rfl

theorem keepsC_bind {β γ : Type} (x : MeshM α β) (f : β → MeshM α γ) (hx : KeepsC x) (hf : ∀ b, KeepsC (f b)) :
    KeepsC (x >>= f) := by
  intro m
  change cgeom (MeshM.bind x f m).1 = _
  unfold MeshM.bind
  have h1 := hx m
  cases hxm : x m with
  | mk m1 r =>
    rw [hxm] at h1
    cases r with
    | ok b => simp only []; rw [hf b m1]; exact h1
    | err e => exact h1
    | panic q => exact h1

theorem keepsC_apply {β : Type} (x : MeshM α β) (hx : KeepsC x) (m m' : Mesh α) (r : Res β) (h : x m = (m', r)) :
    cgeom m' = cgeom m := by
  have := hx m
  rw [h] at this
  exact this

/-- what `self.triangles[i].<mutator>()` does to the marks -/
theorem tmodifyM_cgeom (i : Nat) (f : TriPiece α → TriPiece α) (s : String) (m m' : Mesh α)
    (h : tmodifyM i f s m = (m', .ok ())) (k : Nat) :
    (cgeom m')[k]? = if k = i then (m.triangles[i]?).map (fun t => slotC (f t)) else (cgeom m)[k]? := by
  unfold tmodifyM at h
  split at h
  · injection h with h1 _
    subst h1
    simp only [cgeom_getElem?, Array.getElem?_modify]
    by_cases hk : i = k
    · subst hk; cases m.triangles[i]? <;> simp
    · have hk' : ¬ k = i := fun e => hk e.symm
      simp [hk, hk']
  · injection h with _ h2; cases h2

theorem keepsC_tmodifyM (i : Nat) (f : TriPiece α → TriPiece α) (s : String) (hf : ∀ t, slotC (f t) = slotC t) :
    KeepsC (tmodifyM i f s) := by
  intro m
  unfold tmodifyM
  split
  · apply List.ext_getElem?
    intro k
    simp only [cgeom_getElem?, Array.getElem?_modify]
    by_cases hk : i = k
    · subst hk; cases m.triangles[i]? <;> simp [hf]
    · simp [hk]
  · rfl

theorem slotC_setNeighbour (t : TriPiece α) (e : Edge) (i : Nat) : slotC (t.setNeighbour e i) = slotC t := by
  cases e <;> rfl

theorem keepsC_markAsNeighbours (i1 : Nat) (e : Edge) (i2 : Nat) : KeepsC (markAsNeighbours i1 e i2 : MeshM α Unit) := by
  unfold markAsNeighbours
  split
  · exact keepsC_err _
  · refine keepsC_bind _ _ (keepsC_tgetM _ _) (fun t1 => ?_)
    split
    · exact keepsC_err _
    · refine keepsC_bind _ _ (keepsC_ofRes _) (fun seg1 => ?_)
      refine keepsC_bind _ _ (keepsC_tgetM _ _) (fun t2 => ?_)
      split
      · exact keepsC_err _
      · refine keepsC_bind _ _ (keepsC_ofRes _) (fun e2 => ?_)
        refine keepsC_bind _ _ (keepsC_ofRes _) (fun e2' => ?_)
        refine keepsC_bind _ _ (keepsC_tmodifyM _ _ _ (fun t => slotC_setNeighbour t _ _)) (fun _ => ?_)
        exact keepsC_tmodifyM _ _ _ (fun t => slotC_setNeighbour t _ _)

/-- **linking triangles never touches a fixed-edge mark** -/
theorem keepsC_optMark (o : Option Nat) (i : Nat) (e : Edge) :
    KeepsC (match o with
      | some ni => markAsNeighbours i e ni
      | none => (MeshM.pure () : MeshM α Unit)) := by
  cases o with
  | none => exact keepsC_pure _
  | some ni => exact keepsC_markAsNeighbours _ _ _

theorem slotC_invalidate (t : TriPiece α) : slotC t.invalidate = none := by
  simp [slotC, TriPiece.invalidate]

theorem invalidate_cgeom (i : Nat) (m m' : Mesh α) (h : invalidate i m = (m', .ok ())) :
    cgeom m' = (cgeom m).set i none := by
  unfold invalidate at h
  simp only [] at h
  split at h
  · rename_i hi
    injection h with h1 _
    subst h1
    apply List.ext_getElem?
    intro k
    simp only [cgeom_getElem?, Array.getElem?_modify, List.getElem?_set, cgeom_length]
    by_cases hk : i = k
    · subst hk
      simp [hi, slotC_invalidate]
    · simp [hk]
  · injection h with _ h2
    cases h2

theorem slotC_new (a b c : V3 α) (i : Nat) (t : TriPiece α) (h : TriPiece.new a b c i = .ok t) :
    slotC t = some ((a, b, c), (false, false, false)) := by
  obtain ⟨ha, hb, hc⟩ := C01T.tripiece_new_abc a b c i t h
  have hv : t.valid = true ∧ t.c0 = false ∧ t.c1 = false ∧ t.c2 = false := by
    unfold TriPiece.new at h
    cases ht : Triangle.new a b c with
    | err e => rw [ht] at h; cases h
    | panic e => rw [ht] at h; cases h
    | ok tri =>
      rw [ht] at h
      simp only [Bind.bind, Res.bind] at h
      cases har : tri.aspectRatioR with
      | err e => rw [har] at h; cases h
      | panic e => rw [har] at h; cases h
      | ok ar => rw [har] at h; injection h with h; subst h; exact ⟨rfl, rfl, rfl, rfl⟩
  obtain ⟨h1, h2, h3, h4⟩ := hv
  simp [slotC, h1, h2, h3, h4, ha, hb, hc]

/-- **an `Ok` `push` returns the index of a slot that now holds the new triangle with no edge marked fixed, and leaves every
    live slot as it was** -/
theorem push_cgeom (a b c : V3 α) (la : Nat) (m m' : Mesh α) (n : Nat) (h : Mesh.push a b c la m = (m', .ok n)) :
    (cgeom m')[n]? = some (some ((a, b, c), (false, false, false))) ∧
    ∀ k x, (cgeom m)[k]? = some (some x) → k ≠ n ∧ (cgeom m')[k]? = some (some x) := by
  unfold Mesh.push at h
  simp only [Bind.bind, MeshM.bind, readR] at h
  cases hfi : m.getFirstInvalid la with
  | err e => rw [hfi] at h; simp at h
  | panic e => rw [hfi] at h; simp at h
  | ok fi =>
    rw [hfi] at h
    simp only [] at h
    cases fi with
    | none =>
      simp only [] at h
      cases ht : TriPiece.new a b c m.triangles.size with
      | err e => rw [ht] at h; simp [MeshM.err] at h
      | panic e => rw [ht] at h; simp [MeshM.panic] at h
      | ok t =>
        rw [ht] at h
        simp only [if_true, Prod.mk.injEq] at h
        obtain ⟨h1, h2⟩ := h
        subst h1
        injection h2 with h2
        subst h2
        constructor
        · simp [cgeom_getElem?, slotC_new a b c _ t ht]
        · intro k x hk
          have hlt : k < m.triangles.size := by
            rw [cgeom_getElem?] at hk
            cases hm : m.triangles[k]? with
            | none => rw [hm] at hk; simp at hk
            | some y => exact (Array.getElem?_eq_some_iff.mp hm).1
          refine ⟨by omega, ?_⟩
          rw [cgeom_getElem?] at hk ⊢
          simp only [Array.getElem?_push]
          rw [if_neg (by omega)]
          exact hk
    | some j =>
      simp only [] at h
      obtain ⟨told, htold, hinv⟩ := getFirstInvalid_some m la j hfi
      have hj : j < m.triangles.size := (Array.getElem?_eq_some_iff.mp htold).1
      cases ht : TriPiece.new a b c j with
      | err e => rw [ht] at h; simp [MeshM.err] at h
      | panic e => rw [ht] at h; simp [MeshM.panic] at h
      | ok t =>
        rw [ht] at h
        simp only [Bool.false_eq_true, if_false, hj, if_true, Prod.mk.injEq] at h
        obtain ⟨h1, h2⟩ := h
        subst h1
        injection h2 with h2
        subst h2
        constructor
        · simp [cgeom_getElem?, Array.set!, hj, slotC_new a b c _ t ht]
        · intro k x hk
          have hkj : k ≠ j := by
            intro e
            subst e
            rw [cgeom_getElem?, htold] at hk
            simp [slotC, hinv] at hk
          refine ⟨hkj, ?_⟩
          rw [cgeom_getElem?] at hk ⊢
          simp only [Array.set!]
          rw [Array.getElem?_setIfInBounds_ne (fun e => hkj e.symm)]
          exact hk

/-- mark edge `e` of a slot value as fixed -/
def setFlag (e : Edge) (v : (V3 α × V3 α × V3 α) × (Bool × Bool × Bool)) : (V3 α × V3 α × V3 α) × (Bool × Bool × Bool) :=
  match e with
  | .ab => (v.1, (true, v.2.2.1, v.2.2.2))
  | .bc => (v.1, (v.2.1, true, v.2.2.2))
  | .ca => (v.1, (v.2.1, v.2.2.1, true))

theorem slotC_constrain (t : TriPiece α) (e : Edge) : slotC (t.constrain e) = (slotC t).map (setFlag e) := by
  cases e <;> simp only [slotC, TriPiece.constrain] <;> by_cases hv : t.valid = true <;> simp [hv, setFlag]

/-- `if c { self.triangles[i].constrain(e) }` -/
theorem optConstrain_cgeom (c : Bool) (i : Nat) (e : Edge) (s : String) (m m' : Mesh α)
    (h : (if c then tmodifyM i (fun t => t.constrain e) s else (MeshM.pure () : MeshM α Unit)) m = (m', .ok ())) (k : Nat) :
    (cgeom m')[k]? = if k = i ∧ c = true then ((cgeom m)[i]?).map (Option.map (setFlag e)) else (cgeom m)[k]? := by
  cases c with
  | false =>
    simp only [Bool.false_eq_true, if_false, MeshM.pure, Prod.mk.injEq] at h
    rw [← h.1]; simp
  | true =>
    simp only [if_true] at h
    rw [tmodifyM_cgeom i _ s m m' h k]
    by_cases hk : k = i
    · simp only [hk, true_and, if_true, cgeom_getElem?]
      cases m.triangles[i]? <;> simp [slotC_constrain]
    · simp [hk]

/-- tracking one slot through `if c { triangles[i].constrain(ab) }` -/
theorem optConstrain_track (c : Bool) (i : Nat) (s : String) (m m' : Mesh α)
    (h : (if c then tmodifyM i (fun t => t.constrain Edge.ab) s else (MeshM.pure () : MeshM α Unit)) m = (m', .ok ()))
    (k : Nat) (x : V3 α × V3 α × V3 α) (f0 : Bool) (hk : (cgeom m)[k]? = some (some (x, (f0, false, false)))) :
    (cgeom m')[k]? = some (some (x, (if k = i then (f0 || c) else f0, false, false))) := by
  rw [optConstrain_cgeom c i Edge.ab s m m' h k]
  by_cases hki : k = i
  · subst hki
    cases c with
    | false => simp [hk]
    | true => simp [hk, setFlag]
  · simp [hki, hk]

/-- **fixed-edge marks after an `Ok` `split_triangle(i, p)`**: the three new triangles `(c, a, p)`, `(a, b, p)`, `(b, c, p)` sit in
    three different slots; each carries on its first edge (the old edge `ca`, `ab`, `bc`) exactly the mark the old triangle had
    on that edge, and its two new inner edges are not marked -/
theorem splitTriangle_flags (i : Nat) (p : V3 α) (m m' : Mesh α) (h : splitTriangle i p m = (m', .ok ())) :
    ∃ (tp : TriPiece α) (e1 e2 e3 : Edge) (capI abpI bcpI : Nat), m.triangles[i]? = some tp ∧
      edgeFromPointsOrErr tp.triangle tp.triangle.a tp.triangle.b = .ok e1 ∧
      edgeFromPointsOrErr tp.triangle tp.triangle.b tp.triangle.c = .ok e2 ∧
      edgeFromPointsOrErr tp.triangle tp.triangle.c tp.triangle.a = .ok e3 ∧
      capI ≠ abpI ∧ capI ≠ bcpI ∧ abpI ≠ bcpI ∧
      (cgeom m')[capI]? = some (some ((tp.triangle.c, tp.triangle.a, p), (tp.isConstrained e3, false, false))) ∧
      (cgeom m')[abpI]? = some (some ((tp.triangle.a, tp.triangle.b, p), (tp.isConstrained e1, false, false))) ∧
      (cgeom m')[bcpI]? = some (some ((tp.triangle.b, tp.triangle.c, p), (tp.isConstrained e2, false, false))) := by
  unfold splitTriangle at h
  obtain ⟨tp, m0, htp, h1⟩ := C01T.mbind_ok_inv _ _ _ _ _ h
  clear h
  obtain ⟨hm0, hget⟩ := C18.tgetM_ok_inv _ _ _ _ _ htp
  subst hm0
  split at h1
  · simp [MeshM.err] at h1
  · obtain ⟨e1, m1, he1, h2⟩ := C01T.mbind_ok_inv _ _ _ _ _ h1
    clear h1
    obtain ⟨hm1, he1'⟩ := ofRes_ok_inv _ _ _ _ he1
    subst hm1
    obtain ⟨e2, m2, he2, h3⟩ := C01T.mbind_ok_inv _ _ _ _ _ h2
    clear h2
    obtain ⟨hm2, he2'⟩ := ofRes_ok_inv _ _ _ _ he2
    subst hm2
    obtain ⟨e3, m3, he3, h4⟩ := C01T.mbind_ok_inv _ _ _ _ _ h3
    clear h3
    obtain ⟨hm3, he3'⟩ := ofRes_ok_inv _ _ _ _ he3
    subst hm3
    obtain ⟨u, m4, hinv, h5⟩ := C01T.mbind_ok_inv _ _ _ _ _ h4
    clear h4
    obtain ⟨capI, m5, hp1, h6⟩ := C01T.mbind_ok_inv _ _ _ _ _ h5
    clear h5
    obtain ⟨abpI, m6, hp2, h7⟩ := C01T.mbind_ok_inv _ _ _ _ _ h6
    clear h6
    obtain ⟨bcpI, m7, hp3, h8⟩ := C01T.mbind_ok_inv _ _ _ _ _ h7
    clear h7
    obtain ⟨f1, k1⟩ := push_cgeom _ _ _ _ _ _ _ hp1
    obtain ⟨f2, k2⟩ := push_cgeom _ _ _ _ _ _ _ hp2
    obtain ⟨f3, k3⟩ := push_cgeom _ _ _ _ _ _ _ hp3
    obtain ⟨n12, c6⟩ := k2 _ _ f1
    obtain ⟨n13, c7⟩ := k3 _ _ c6
    obtain ⟨n23, a7⟩ := k3 _ _ f2
    -- the tail, step by step
    obtain ⟨_, m8, s1, t1⟩ := C01T.mbind_ok_inv _ _ _ _ _ h8
    clear h8
    obtain ⟨_, m9, s2, t2⟩ := C01T.mbind_ok_inv _ _ _ _ _ t1
    clear t1
    obtain ⟨_, m10, s3, t3⟩ := C01T.mbind_ok_inv _ _ _ _ _ t2
    clear t2
    obtain ⟨_, m11, s4, t4⟩ := C01T.mbind_ok_inv _ _ _ _ _ t3
    clear t3
    obtain ⟨_, m12, s5, t5⟩ := C01T.mbind_ok_inv _ _ _ _ _ t4
    clear t4
    obtain ⟨_, m13, s6, t6⟩ := C01T.mbind_ok_inv _ _ _ _ _ t5
    clear t5
    obtain ⟨_, m14, s7, t7⟩ := C01T.mbind_ok_inv _ _ _ _ _ t6
    clear t6
    obtain ⟨_, m15, s8, s9⟩ := C01T.mbind_ok_inv _ _ _ _ _ t7
    clear t7
    have g8 := keepsC_apply _ (keepsC_markAsNeighbours _ _ _) _ _ _ s1
    have g9 := keepsC_apply _ (keepsC_markAsNeighbours _ _ _) _ _ _ s2
    have g10 := keepsC_apply _ (keepsC_markAsNeighbours _ _ _) _ _ _ s3
    have g12 := keepsC_apply _ (keepsC_optMark _ _ _) _ _ _ s5
    have g14 := keepsC_apply _ (keepsC_optMark _ _ _) _ _ _ s7
    have g16 := keepsC_apply _ (keepsC_optMark _ _ _) _ _ _ s9
    -- slots at m10 = slots at m7
    have c10 := c7
    have a10 := a7
    have b10 := f3
    rw [← g8, ← g9, ← g10] at c10 a10 b10
    have c11 := optConstrain_track _ _ _ _ _ s4 capI _ _ c10
    have a11 := optConstrain_track _ _ _ _ _ s4 abpI _ _ a10
    have b11 := optConstrain_track _ _ _ _ _ s4 bcpI _ _ b10
    rw [← g12] at c11 a11 b11
    have c13 := optConstrain_track _ _ _ _ _ s6 capI _ _ c11
    have a13 := optConstrain_track _ _ _ _ _ s6 abpI _ _ a11
    have b13 := optConstrain_track _ _ _ _ _ s6 bcpI _ _ b11
    rw [← g14] at c13 a13 b13
    have c15 := optConstrain_track _ _ _ _ _ s8 capI _ _ c13
    have a15 := optConstrain_track _ _ _ _ _ s8 abpI _ _ a13
    have b15 := optConstrain_track _ _ _ _ _ s8 bcpI _ _ b13
    rw [← g16] at c15 a15 b15
    have n21 : abpI ≠ capI := fun e => n12 e.symm
    have n31 : bcpI ≠ capI := fun e => n13 e.symm
    have n32 : bcpI ≠ abpI := fun e => n23 e.symm
    refine ⟨tp, e1, e2, e3, capI, abpI, bcpI, hget, he1', he2', he3', n12, n13, n23, ?_, ?_, ?_⟩
    · simpa [n12, n13] using c15
    · simpa [n21, n23] using a15
    · simpa [n31, n32] using b15

/-- tracking one slot through `if c { triangles[i].constrain(e) }` -/
theorem optConstrain_track' (c : Bool) (i : Nat) (e : Edge) (s : String) (m m' : Mesh α)
    (h : (if c then tmodifyM i (fun t => t.constrain e) s else (MeshM.pure () : MeshM α Unit)) m = (m', .ok ()))
    (k : Nat) (v : (V3 α × V3 α × V3 α) × (Bool × Bool × Bool)) (hk : (cgeom m)[k]? = some (some v)) :
    (cgeom m')[k]? = some (some (if k = i ∧ c = true then setFlag e v else v)) := by
  rw [optConstrain_cgeom c i e s m m' h k]
  by_cases hki : k = i
  · subst hki
    cases c with
    | false => simp [hk]
    | true => simp [hk]
  · simp [hki, hk]

/-- **fixed-edge marks after an `Ok` `flip_diagonal(index, edge)`**: the new triangles `(A, O, C)` and `(C, O, B)` sit in two
    different slots; `(A, O, C)` carries on `AO` the mark the NEIGHBOUR had on its edge `A–O` and on `CA` the mark the flipped
    triangle had on `A–C`; `(C, O, B)` carries on `OB` the neighbour's mark of `B–O` and on `BC` the flipped triangle's mark of
    `C–B`; the new diagonal `O–C` is not marked in either -/
theorem flipDiagonal_flags (index : Nat) (edge : Edge) (m m' : Mesh α) (h : flipDiagonal index edge m = (m', .ok ())) :
    ∃ (tp nb : TriPiece α) (ni : Nat) (A B C O : V3 α) (acE cbE boE aoE : Edge) (aocI cobI : Nat),
      m.triangles[index]? = some tp ∧ tp.neighbour edge = some ni ∧ m.triangles[ni]? = some nb ∧
      edgeFromPointsOrPanic tp.triangle A C "triangulation3d.rs:flip_diagonal:AC-not-found" = .ok acE ∧
      edgeFromPointsOrPanic tp.triangle C B "triangulation3d.rs:flip_diagonal:CB-not-found" = .ok cbE ∧
      edgeFromPointsOrPanic nb.triangle B O "triangulation3d.rs:flip_diagonal:B-Opposite-not-found" = .ok boE ∧
      edgeFromPointsOrPanic nb.triangle A O "triangulation3d.rs:flip_diagonal:A-Opposite-not-found" = .ok aoE ∧
      aocI ≠ cobI ∧
      (cgeom m')[aocI]? = some (some ((A, O, C), (nb.isConstrained aoE, false, tp.isConstrained acE))) ∧
      (cgeom m')[cobI]? = some (some ((C, O, B), (false, nb.isConstrained boE, tp.isConstrained cbE))) := by
  unfold flipDiagonal at h
  obtain ⟨tp, m0, htp, h1⟩ := C01T.mbind_ok_inv _ _ _ _ _ h
  clear h
  obtain ⟨hm0, hget⟩ := C18.tgetM_ok_inv _ _ _ _ _ htp
  subst hm0
  split at h1
  · simp [MeshM.panic] at h1
  · cases hni : tp.neighbour edge with
    | none => simp only [hni] at h1; simp [MeshM.panic] at h1
    | some ni =>
      simp only [hni] at h1
      obtain ⟨nb, m1, hnb, h2⟩ := C01T.mbind_ok_inv _ _ _ _ _ h1
      clear h1
      obtain ⟨hm1, hgetn⟩ := C18.tgetM_ok_inv _ _ _ _ _ hnb
      subst hm1
      split at h2
      · simp [MeshM.panic] at h2
      · obtain ⟨A, m2, hA, h3⟩ := C01T.mbind_ok_inv _ _ _ _ _ h2
        clear h2
        obtain ⟨hm2, _⟩ := ofRes_ok_inv _ _ _ _ hA
        subst hm2
        obtain ⟨B, m3, hB, h4⟩ := C01T.mbind_ok_inv _ _ _ _ _ h3
        clear h3
        obtain ⟨hm3, _⟩ := ofRes_ok_inv _ _ _ _ hB
        subst hm3
        obtain ⟨C, m4, hC, h5⟩ := C01T.mbind_ok_inv _ _ _ _ _ h4
        clear h4
        obtain ⟨hm4, _⟩ := ofRes_ok_inv _ _ _ _ hC
        subst hm4
        obtain ⟨O, m5, hO, h6⟩ := C01T.mbind_ok_inv _ _ _ _ _ h5
        clear h5
        obtain ⟨hm5, _⟩ := ofRes_ok_inv _ _ _ _ hO
        subst hm5
        obtain ⟨acE, m6, hac, h7⟩ := C01T.mbind_ok_inv _ _ _ _ _ h6
        clear h6
        obtain ⟨hm6, hac'⟩ := ofRes_ok_inv _ _ _ _ hac
        subst hm6
        obtain ⟨cbE, m7, hcb, h8⟩ := C01T.mbind_ok_inv _ _ _ _ _ h7
        clear h7
        obtain ⟨hm7, hcb'⟩ := ofRes_ok_inv _ _ _ _ hcb
        subst hm7
        obtain ⟨boE, m8, hbo, h9⟩ := C01T.mbind_ok_inv _ _ _ _ _ h8
        clear h8
        obtain ⟨hm8, hbo'⟩ := ofRes_ok_inv _ _ _ _ hbo
        subst hm8
        obtain ⟨aoE, m9, hao, h10⟩ := C01T.mbind_ok_inv _ _ _ _ _ h9
        clear h9
        obtain ⟨hm9, hao'⟩ := ofRes_ok_inv _ _ _ _ hao
        subst hm9
        obtain ⟨u1, m10, hinv1, h11⟩ := C01T.mbind_ok_inv _ _ _ _ _ h10
        clear h10
        obtain ⟨u2, m11, hinv2, h12⟩ := C01T.mbind_ok_inv _ _ _ _ _ h11
        clear h11
        obtain ⟨aocI, m12, hp1, h13⟩ := C01T.mbind_ok_inv _ _ _ _ _ h12
        clear h12
        obtain ⟨cobI, m13, hp2, h14⟩ := C01T.mbind_ok_inv _ _ _ _ _ h13
        clear h13
        obtain ⟨f1, _⟩ := push_cgeom _ _ _ _ _ _ _ hp1
        obtain ⟨f2, k2⟩ := push_cgeom _ _ _ _ _ _ _ hp2
        obtain ⟨n12, c13⟩ := k2 _ _ f1
        have n21 : cobI ≠ aocI := fun e => n12 e.symm
        -- the tail
        obtain ⟨_, m14, s1, t1⟩ := C01T.mbind_ok_inv _ _ _ _ _ h14
        clear h14
        obtain ⟨_, m15, s2, t2⟩ := C01T.mbind_ok_inv _ _ _ _ _ t1
        clear t1
        obtain ⟨_, m16, s3, t3⟩ := C01T.mbind_ok_inv _ _ _ _ _ t2
        clear t2
        obtain ⟨_, m17, s4, t4⟩ := C01T.mbind_ok_inv _ _ _ _ _ t3
        clear t3
        obtain ⟨_, m18, s5, t5⟩ := C01T.mbind_ok_inv _ _ _ _ _ t4
        clear t4
        obtain ⟨_, m19, s6, t6⟩ := C01T.mbind_ok_inv _ _ _ _ _ t5
        clear t5
        obtain ⟨_, m20, s7, t7⟩ := C01T.mbind_ok_inv _ _ _ _ _ t6
        clear t6
        obtain ⟨_, m21, s8, s9⟩ := C01T.mbind_ok_inv _ _ _ _ _ t7
        clear t7
        have g14 := keepsC_apply _ (keepsC_optMark _ _ _) _ _ _ s1
        have g16 := keepsC_apply _ (keepsC_markAsNeighbours _ _ _) _ _ _ s3
        have g17 := keepsC_apply _ (keepsC_optMark _ _ _) _ _ _ s4
        have g19 := keepsC_apply _ (keepsC_optMark _ _ _) _ _ _ s6
        have g21 := keepsC_apply _ (keepsC_optMark _ _ _) _ _ _ s8
        have a14 := c13
        have b14 := f2
        rw [← g14] at a14 b14
        have a15 := optConstrain_track' _ _ _ _ _ _ s2 aocI _ a14
        have b15 := optConstrain_track' _ _ _ _ _ _ s2 cobI _ b14
        rw [← g16, ← g17] at a15 b15
        have a18 := optConstrain_track' _ _ _ _ _ _ s5 aocI _ a15
        have b18 := optConstrain_track' _ _ _ _ _ _ s5 cobI _ b15
        rw [← g19] at a18 b18
        have a20 := optConstrain_track' _ _ _ _ _ _ s7 aocI _ a18
        have b20 := optConstrain_track' _ _ _ _ _ _ s7 cobI _ b18
        rw [← g21] at a20 b20
        have a22 := optConstrain_track' _ _ _ _ _ _ s9 aocI _ a20
        have b22 := optConstrain_track' _ _ _ _ _ _ s9 cobI _ b20
        refine ⟨tp, nb, ni, A, B, C, O, acE, cbE, boE, aoE, aocI, cobI, hget, hni, hgetn, hac', hcb', hbo', hao', n12, ?_, ?_⟩
        · rw [a22]
          cases nb.isConstrained aoE <;> cases tp.isConstrained acE <;> simp [n12, setFlag]
        · rw [b22]
          cases nb.isConstrained boE <;> cases tp.isConstrained cbE <;> simp [n21, setFlag]

/-! ## `split_edge`, one side -/

theorem isConstrained_invalidate (t : TriPiece α) (e : Edge) : t.invalidate.isConstrained e = t.isConstrained e := by
  cases e <;> rfl

theorem invalidate_get (i : Nat) (m m' : Mesh α) (tp : TriPiece α) (h : invalidate i m = (m', .ok ()))
    (hg : m.triangles[i]? = some tp) : m'.triangles[i]? = some tp.invalidate := by
  unfold invalidate at h
  simp only [] at h
  split at h
  · injection h with h1 _
    subst h1
    simp [Array.getElem?_modify, hg]
  · injection h with _ h2; cases h2

/-- **fixed-edge marks after one side of an `Ok` `split_edge`**: the two new triangles `(A, p, C)` and `(p, B, C)` sit in two
    different slots; both carry on their first edge (`A–p`, `p–B`: the halves of the split edge) the mark of the split edge,
    `(A, p, C)` carries on `C–A` and `(p, B, C)` on `B–C` the mark the old triangle had there; the new inner edge `p–C` is
    unmarked in both -/
theorem processHemisphere_flags (seg : Segment α) (p : V3 α) (index : Nat) (m m' : Mesh α) (r : Nat × Nat)
    (h : processHemisphere seg p index m = (m', .ok r)) :
    ∃ (tp : TriPiece α) (k : Nat) (ab : Segment α) (e e1 e2 : Edge) (C : V3 α),
      m.triangles[index]? = some tp ∧ tp.triangle.getEdgeIndexFromSegment seg = some k ∧
      tp.triangle.segment k = .ok ab ∧ e.addR 1 = .ok e1 ∧ e.addR 2 = .ok e2 ∧
      getOppositeVertex tp.triangle ab = .ok C ∧ r.1 ≠ r.2 ∧
      (cgeom m')[r.1]? = some (some ((ab.start, p, C), (tp.isConstrained e, false, tp.isConstrained e2))) ∧
      (cgeom m')[r.2]? = some (some ((p, ab.stop, C), (tp.isConstrained e, tp.isConstrained e1, false))) := by
  unfold processHemisphere at h
  obtain ⟨tp, m0, htp, h1⟩ := C01T.mbind_ok_inv _ _ _ _ _ h
  clear h
  obtain ⟨hm0, hget⟩ := C18.tgetM_ok_inv _ _ _ _ _ htp
  subst hm0
  obtain ⟨k, m1, hk, h2⟩ := C01T.mbind_ok_inv _ _ _ _ _ h1
  clear h1
  obtain ⟨hm1, hk'⟩ := ofRes_ok_inv _ _ _ _ hk
  subst hm1
  obtain ⟨ab, m2, hab, h3⟩ := C01T.mbind_ok_inv _ _ _ _ _ h2
  clear h2
  obtain ⟨hm2, hab'⟩ := ofRes_ok_inv _ _ _ _ hab
  subst hm2
  obtain ⟨e0, m3, he0, h4⟩ := C01T.mbind_ok_inv _ _ _ _ _ h3
  clear h3
  obtain ⟨hm3, _⟩ := ofRes_ok_inv _ _ _ _ he0
  subst hm3
  obtain ⟨e, m4, he, h5⟩ := C01T.mbind_ok_inv _ _ _ _ _ h4
  clear h4
  obtain ⟨hm4, _⟩ := ofRes_ok_inv _ _ _ _ he
  subst hm4
  obtain ⟨C, m5, hC, h6⟩ := C01T.mbind_ok_inv _ _ _ _ _ h5
  clear h5
  obtain ⟨hm5, hC'⟩ := ofRes_ok_inv _ _ _ _ hC
  subst hm5
  obtain ⟨u, m6, hinv, h7⟩ := C01T.mbind_ok_inv _ _ _ _ _ h6
  clear h6
  obtain ⟨tp2, m7, htp2, h8⟩ := C01T.mbind_ok_inv _ _ _ _ _ h7
  clear h7
  obtain ⟨hm7, hget2⟩ := C18.tgetM_ok_inv _ _ _ _ _ htp2
  subst hm7
  have htp2eq : tp2 = tp.invalidate := by
    have := invalidate_get _ _ _ _ hinv hget
    rw [this] at hget2
    injection hget2 with hget2
    exact hget2.symm
  obtain ⟨e1, m8, he1, h9⟩ := C01T.mbind_ok_inv _ _ _ _ _ h8
  clear h8
  obtain ⟨hm8, he1'⟩ := ofRes_ok_inv _ _ _ _ he1
  subst hm8
  obtain ⟨e2, m9, he2, h10⟩ := C01T.mbind_ok_inv _ _ _ _ _ h9
  clear h9
  obtain ⟨hm9, he2'⟩ := ofRes_ok_inv _ _ _ _ he2
  subst hm9
  obtain ⟨apcI, m10, hp1, h11⟩ := C01T.mbind_ok_inv _ _ _ _ _ h10
  clear h10
  obtain ⟨pbcI, m11, hp2, h12⟩ := C01T.mbind_ok_inv _ _ _ _ _ h11
  clear h11
  obtain ⟨f1, _⟩ := push_cgeom _ _ _ _ _ _ _ hp1
  obtain ⟨f2, k2⟩ := push_cgeom _ _ _ _ _ _ _ hp2
  obtain ⟨n12, c11⟩ := k2 _ _ f1
  have n21 : pbcI ≠ apcI := fun e => n12 e.symm
  obtain ⟨_, m12, s1, t1⟩ := C01T.mbind_ok_inv _ _ _ _ _ h12
  clear h12
  obtain ⟨_, m13, s2, t2⟩ := C01T.mbind_ok_inv _ _ _ _ _ t1
  clear t1
  obtain ⟨_, m14, s3, t3⟩ := C01T.mbind_ok_inv _ _ _ _ _ t2
  clear t2
  obtain ⟨_, m15, s4, t4⟩ := C01T.mbind_ok_inv _ _ _ _ _ t3
  clear t3
  obtain ⟨_, m16, s5, t5⟩ := C01T.mbind_ok_inv _ _ _ _ _ t4
  clear t4
  obtain ⟨_, m17, s6, t6⟩ := C01T.mbind_ok_inv _ _ _ _ _ t5
  clear t5
  obtain ⟨_, m18, s7, s8⟩ := C01T.mbind_ok_inv _ _ _ _ _ t6
  clear t6
  have hfin : m' = m18 ∧ r = (apcI, pbcI) := by
    simp only [MeshM.pure, Prod.mk.injEq] at s8
    obtain ⟨q1, q2⟩ := s8
    injection q2 with q2
    exact ⟨q1.symm, q2.symm⟩
  obtain ⟨hm', hr⟩ := hfin
  subst hm' hr
  have g13 := keepsC_apply _ (keepsC_markAsNeighbours _ _ _) _ _ _ s2
  have g14 := keepsC_apply _ (keepsC_optMark _ _ _) _ _ _ s3
  have g17 := keepsC_apply _ (keepsC_optMark _ _ _) _ _ _ s6
  have a12 := optConstrain_track' _ _ _ _ _ _ s1 apcI _ c11
  have b12 := optConstrain_track' _ _ _ _ _ _ s1 pbcI _ f2
  rw [← g13, ← g14] at a12 b12
  have a15 := optConstrain_track' _ _ _ _ _ _ s4 apcI _ a12
  have b15 := optConstrain_track' _ _ _ _ _ _ s4 pbcI _ b12
  have a16 := optConstrain_track' _ _ _ _ _ _ s5 apcI _ a15
  have b16 := optConstrain_track' _ _ _ _ _ _ s5 pbcI _ b15
  rw [← g17] at a16 b16
  have a18 := optConstrain_track' _ _ _ _ _ _ s7 apcI _ a16
  have b18 := optConstrain_track' _ _ _ _ _ _ s7 pbcI _ b16
  have hk'' : tp.triangle.getEdgeIndexFromSegment seg = some k := by
    unfold okOrErr at hk'
    split at hk'
    · rename_i b hb; injection hk' with hk'; rw [hb, hk']
    · cases hk'
  refine ⟨tp, k, ab, e, e1, e2, C, hget, hk'', hab', he1', he2', hC', n12, ?_, ?_⟩
  · rw [a18, htp2eq]
    simp only [isConstrained_invalidate]
    cases tp.isConstrained e <;> cases tp.isConstrained e1 <;> cases tp.isConstrained e2 <;> simp [n12, setFlag]
  · rw [b18, htp2eq]
    simp only [isConstrained_invalidate]
    cases tp.isConstrained e <;> cases tp.isConstrained e1 <;> cases tp.isConstrained e2 <;> simp [n21, setFlag]

end G3d.C08S
