import G3d.Proofs.VecLemmas
import G3d.Model.Segment
import G3d.Model.Triangle
import G3d.Model.Sphere
import G3d.Model.Cylinder
import G3d.Model.Disk
import G3d.Model.Plane
import G3d.Props.C11
import G3d.Props.C10
import Mathlib.Tactic.FieldSimp
import Mathlib.Tactic.Positivity
/-!
# C19 — segment, triangle and vector predicates agree with exact geometry (exact semantics)

Segments (`get_intersection_pt`, `intersect`, `touches`):
* `ipt_some_iff` — a crossing is reported iff the directions are not `is_same_direction`, the supporting lines are within
  `1e-5` of each other (`|δ·n| ≤ 1e-5 |n|`), and the dominant component of `n = a × b` exceeds `1e-5`
  (`skew_none`, `parallel_none` are the two refusals).
* `ipt_locates` — the returned parameters locate the same point on both segments in the two projected coordinates exactly,
  and in 3-D exactly when the lines are coplanar (`ipt_locates_coplanar`); in general the two points differ by
  `(δ·n)/n_k` along the dominant axis only, at most `√3·1e-5` (`ipt_mismatch_bound`).
* `intersect_iff`, `touches_iff` — crossing needs `0 ≤ t_a < 1`, `1e-8 ≤ t_b < 1 − 1e-8` (contact at the second segment's end
  points excluded), touching `0 ≤ t_a ≤ 1`, `0 ≤ t_b ≤ 1` (included); `intersect_imp_touches`.
Triangles: `circumcenter_equidistant`, `centroid_mean`, `heron_eq_cross` (the stored area is `|ab × ac| / 2`),
`tp_bary` (the barycentric coordinates `test_point` computes are the true ones), `tp_inside`, `tp_outside`.
Vectors: `isParallel_iff`, `sameDirection_iff`, `perp_is_perp`, `collinear_iff`.
Surface areas: `sphere_area_full`, `sphere_zone_area`, `cylinder_area_full`, `disk_area_full`, `annulus_sector_area`,
`box_surface_area`.
-/
namespace G3d.C19
open G3d Num

noncomputable section

/-! ## segments -/

/-- the quantities `get_intersection_pt` works with -/
def dirA (s : Segment ℝ) : V3 ℝ := s.stop - s.start
def nrm (s i : Segment ℝ) : V3 ℝ := (s.stop - s.start).cross (i.stop - i.start)
def delta (s i : Segment ℝ) : V3 ℝ := s.start - i.start

/-- the point of `s` at parameter `t` -/
def at' (s : Segment ℝ) (t : ℝ) : V3 ℝ := s.start + (s.stop - s.start).smul t

theorem abs_real (x : ℝ) : Num.abs x = |x| := rfl

/-- **skew segments never cross**: supporting lines more than `1e-5` apart ⇒ `None` -/
theorem skew_none (s i : Segment ℝ) (h : 1e-5 * (nrm s i).length < |(delta s i).dot (nrm s i)|) :
    s.getIntersectionPt i = none := by
  unfold Segment.getIntersectionPt
  simp only []
  split_ifs with h2
  · rfl
  all_goals (exfalso; simp only [real_gt_dec, decide_eq_true_eq, not_lt] at h2; num_real_at h2
             simp only [nrm, delta] at h; linarith)

/-- **exactly parallel segments never cross** -/
theorem parallel_none (s i : Segment ℝ) (h : nrm s i = ⟨0, 0, 0⟩) : s.getIntersectionPt i = none := by
  unfold Segment.getIntersectionPt
  simp only []
  have hn : (s.stop - s.start).cross (i.stop - i.start) = ⟨0, 0, 0⟩ := h
  split_ifs <;> first | rfl | skip
  all_goals (rename_i hk; simp only [hn, real_gt_dec, Bool.and_eq_true, decide_eq_true_eq] at hk; num_real_at hk
             norm_num at hk)

/-- the returned parameters, projection by projection -/
theorem ipt_cases (s i : Segment ℝ) (tA tB : ℝ) (h : s.getIntersectionPt i = some (tA, tB)) :
    let a := s.stop - s.start; let b := i.stop - i.start; let n := a.cross b; let d := s.start - i.start
    |d.dot n| ≤ 1e-5 * n.length ∧
    ((1e-5 < |n.z| ∧ |n.x| ≤ |n.z| ∧ |n.y| ≤ |n.z| ∧
        tA = (b.y * d.x - b.x * d.y) / (a.y * b.x - a.x * b.y) ∧ tB = (a.y * d.x - a.x * d.y) / (a.y * b.x - a.x * b.y)) ∨
     (1e-5 < |n.x| ∧ |n.y| ≤ |n.x| ∧ |n.z| ≤ |n.x| ∧
        tA = (b.y * d.z - b.z * d.y) / (a.y * b.z - a.z * b.y) ∧ tB = (a.y * d.z - a.z * d.y) / (a.y * b.z - a.z * b.y)) ∨
     (1e-5 < |n.y| ∧ |n.x| ≤ |n.y| ∧ |n.z| ≤ |n.y| ∧
        tA = (b.x * d.z - b.z * d.x) / (a.x * b.z - a.z * b.x) ∧ tB = (a.x * d.z - a.z * d.x) / (a.x * b.z - a.z * b.x))) := by
  intro a b n d
  unfold Segment.getIntersectionPt at h
  simp only [] at h
  split_ifs at h with h2 h3 h4 h5
  · simp only [real_gt_dec, decide_eq_true_eq, not_lt] at h2; num_real_at h2
    simp only [real_gt_dec, real_ge_dec, Bool.and_eq_true, decide_eq_true_eq] at h3; num_real_at h3
    simp only [Option.some.injEq, Prod.mk.injEq] at h; num_real_at h
    exact ⟨h2, Or.inl ⟨h3.1.1, h3.1.2, h3.2, h.1.symm, h.2.symm⟩⟩
  · simp only [real_gt_dec, decide_eq_true_eq, not_lt] at h2; num_real_at h2
    simp only [real_gt_dec, real_ge_dec, Bool.and_eq_true, decide_eq_true_eq, not_and, not_le] at h3 h4
    num_real_at h3; num_real_at h4
    simp only [Option.some.injEq, Prod.mk.injEq] at h; num_real_at h
    refine ⟨h2, Or.inr (Or.inl ⟨h4.1, h4.2, ?_, h.1.symm, h.2.symm⟩)⟩
    by_contra hc
    push Not at hc
    have hz : 1e-5 < |n.z| := lt_trans h4.1 hc
    have := h3 ⟨hz, le_of_lt hc⟩
    linarith [h4.2]
  · simp only [real_gt_dec, decide_eq_true_eq, not_lt] at h2; num_real_at h2
    simp only [real_gt_dec, real_ge_dec, Bool.and_eq_true, decide_eq_true_eq, not_and, not_le] at h3 h4 h5
    num_real_at h3; num_real_at h4; num_real_at h5
    simp only [Option.some.injEq, Prod.mk.injEq] at h; num_real_at h
    refine ⟨h2, Or.inr (Or.inr ⟨h5, ?_, ?_, h.1.symm, h.2.symm⟩)⟩
    · by_contra hc
      push Not at hc
      have := h4 (lt_trans h5 hc)
      linarith
    · by_contra hc
      push Not at hc
      have hz : 1e-5 < |n.z| := lt_trans h5 hc
      by_cases hxz : |n.x| ≤ |n.z|
      · have := h3 ⟨hz, hxz⟩; linarith
      · push Not at hxz
        have := h4 (lt_trans hz hxz)
        linarith

/-- the mismatch between the two located points -/
def mismatch (s i : Segment ℝ) (tA tB : ℝ) : V3 ℝ := at' s tA - at' i tB

/-- the 2×2 solve of `get_intersection_pt` in coordinates `(u, v)` with third coordinate `w`: the two equations hold
    exactly and the third residual times the normal's third component is `δ·n` -/
theorem solve2 (au av aw bu bv bw du dv dw det tA tB : ℝ) (hdet : det = av * bu - au * bv) (hne : det ≠ 0)
    (hA : tA = (bv * du - bu * dv) / det) (hB : tB = (av * du - au * dv) / det) :
    du + au * tA - bu * tB = 0 ∧ dv + av * tA - bv * tB = 0 ∧
    (dw + aw * tA - bw * tB) * (au * bv - av * bu)
      = du * (av * bw - aw * bv) + dv * (aw * bu - au * bw) + dw * (au * bv - av * bu) := by
  subst hA hB
  refine ⟨?_, ?_, ?_⟩
  · field_simp; rw [hdet]; ring
  · field_simp; rw [hdet]; ring
  · have h1 : (au * bv - av * bu) = -det := by rw [hdet]; ring
    rw [h1]; field_simp; rw [hdet]; ring

/-- **the returned parameters locate the same point in the two coordinates of the projection, and the third coordinate
    differs by `(δ·n)/n_k`** -/
theorem ipt_locates (s i : Segment ℝ) (tA tB : ℝ) (h : s.getIntersectionPt i = some (tA, tB)) :
    let n := nrm s i; let d := delta s i; let m := mismatch s i tA tB
    (1e-5 < |n.z| ∧ |n.x| ≤ |n.z| ∧ |n.y| ≤ |n.z| ∧ m.x = 0 ∧ m.y = 0 ∧ m.z * n.z = d.dot n) ∨
    (1e-5 < |n.x| ∧ |n.y| ≤ |n.x| ∧ |n.z| ≤ |n.x| ∧ m.y = 0 ∧ m.z = 0 ∧ m.x * n.x = d.dot n) ∨
    (1e-5 < |n.y| ∧ |n.x| ≤ |n.y| ∧ |n.z| ≤ |n.y| ∧ m.x = 0 ∧ m.z = 0 ∧ m.y * n.y = d.dot n) := by
  intro n d m
  obtain ⟨_, hc⟩ := ipt_cases s i tA tB h
  obtain ⟨s0, s1, sl⟩ := s
  obtain ⟨i0, i1, il⟩ := i
  simp only [nrm, delta, mismatch, at', n, d, m] at *
  rcases hc with ⟨h1, h2, h3, hA, hB⟩ | ⟨h1, h2, h3, hA, hB⟩ | ⟨h1, h2, h3, hA, hB⟩
  · left
    have hne : (s1 - s0).y * (i1 - i0).x - (s1 - s0).x * (i1 - i0).y ≠ 0 := by
      intro h0
      have : ((s1 - s0).cross (i1 - i0)).z = 0 := by vec_real; vec_real_at h0; linarith
      rw [this] at h1; norm_num at h1
    obtain ⟨e1, e2, e3⟩ := solve2 (s1 - s0).x (s1 - s0).y (s1 - s0).z (i1 - i0).x (i1 - i0).y (i1 - i0).z
      (s0 - i0).x (s0 - i0).y (s0 - i0).z _ tA tB rfl hne hA hB
    refine ⟨h1, h2, h3, ?_, ?_, ?_⟩
    · vec_real; vec_real_at e1; linarith
    · vec_real; vec_real_at e2; linarith
    · vec_real; vec_real_at e3; linarith
  · right; left
    have hne : (s1 - s0).y * (i1 - i0).z - (s1 - s0).z * (i1 - i0).y ≠ 0 := by
      intro h0
      have : ((s1 - s0).cross (i1 - i0)).x = 0 := by vec_real; vec_real_at h0; linarith
      rw [this] at h1; norm_num at h1
    obtain ⟨e1, e2, e3⟩ := solve2 (s1 - s0).z (s1 - s0).y (s1 - s0).x (i1 - i0).z (i1 - i0).y (i1 - i0).x
      (s0 - i0).z (s0 - i0).y (s0 - i0).x _ tA tB rfl hne hA hB
    refine ⟨h1, h2, h3, ?_, ?_, ?_⟩
    · vec_real; vec_real_at e2; linarith
    · vec_real; vec_real_at e1; linarith
    · vec_real; vec_real_at e3; linarith
  · right; right
    have hne : (s1 - s0).x * (i1 - i0).z - (s1 - s0).z * (i1 - i0).x ≠ 0 := by
      intro h0
      have : ((s1 - s0).cross (i1 - i0)).y = 0 := by vec_real; vec_real_at h0; linarith
      rw [this] at h1; norm_num at h1
    obtain ⟨e1, e2, e3⟩ := solve2 (s1 - s0).z (s1 - s0).x (s1 - s0).y (i1 - i0).z (i1 - i0).x (i1 - i0).y
      (s0 - i0).z (s0 - i0).x (s0 - i0).y _ tA tB rfl hne hA hB
    refine ⟨h1, h2, h3, ?_, ?_, ?_⟩
    · vec_real; vec_real_at e2; linarith
    · vec_real; vec_real_at e1; linarith
    · vec_real; vec_real_at e3; linarith

/-- **coplanar lines: the parameters locate the same 3-D point on both segments** -/
theorem ipt_locates_coplanar (s i : Segment ℝ) (tA tB : ℝ) (h : s.getIntersectionPt i = some (tA, tB))
    (hc : (delta s i).dot (nrm s i) = 0) : at' s tA = at' i tB := by
  have hm : mismatch s i tA tB = ⟨0, 0, 0⟩ := by
    rcases ipt_locates s i tA tB h with ⟨h1, _, _, hx, hy, hz⟩ | ⟨h1, _, _, hy, hz, hx⟩ | ⟨h1, _, _, hx, hz, hy⟩
    · rw [hc] at hz
      have : (nrm s i).z ≠ 0 := by intro h0; rw [h0] at h1; norm_num at h1
      have hz' := (mul_eq_zero.mp hz).resolve_right this
      apply V3.ext' <;> assumption
    · rw [hc] at hx
      have : (nrm s i).x ≠ 0 := by intro h0; rw [h0] at h1; norm_num at h1
      have hx' := (mul_eq_zero.mp hx).resolve_right this
      apply V3.ext' <;> assumption
    · rw [hc] at hy
      have : (nrm s i).y ≠ 0 := by intro h0; rw [h0] at h1; norm_num at h1
      have hy' := (mul_eq_zero.mp hy).resolve_right this
      apply V3.ext' <;> assumption
  unfold mismatch at hm
  apply V3.ext'
  · have := congrArg V3.x hm; simp only [V3.sub_def] at this; num_real_at this; linarith
  · have := congrArg V3.y hm; simp only [V3.sub_def] at this; num_real_at this; linarith
  · have := congrArg V3.z hm; simp only [V3.sub_def] at this; num_real_at this; linarith

theorem length_le_sqrt3 (n : V3 ℝ) (k : ℝ) (hx : |n.x| ≤ k) (hy : |n.y| ≤ k) (hz : |n.z| ≤ k) :
    n.length ≤ Real.sqrt 3 * k := by
  have hk : 0 ≤ k := le_trans (abs_nonneg _) hx
  have h1 : n.x * n.x ≤ k * k := by nlinarith [abs_mul_abs_self n.x, abs_nonneg n.x]
  have h2 : n.y * n.y ≤ k * k := by nlinarith [abs_mul_abs_self n.y, abs_nonneg n.y]
  have h3 : n.z * n.z ≤ k * k := by nlinarith [abs_mul_abs_self n.z, abs_nonneg n.z]
  have : n.lengthSquared ≤ 3 * (k * k) := by unfold V3.lengthSquared; num_real; linarith
  simp only [V3.length, real_sqrt]
  calc Real.sqrt n.lengthSquared ≤ Real.sqrt (3 * (k * k)) := Real.sqrt_le_sqrt this
    _ = Real.sqrt 3 * k := by
        rw [Real.sqrt_mul (by norm_num), Real.sqrt_mul_self hk]

/-- **in general the two located points differ by at most `√3·1e-5`**, and only along the dominant axis of the normal -/
theorem ipt_mismatch_bound (s i : Segment ℝ) (tA tB : ℝ) (h : s.getIntersectionPt i = some (tA, tB)) :
    let m := mismatch s i tA tB
    |m.x| ≤ Real.sqrt 3 * 1e-5 ∧ |m.y| ≤ Real.sqrt 3 * 1e-5 ∧ |m.z| ≤ Real.sqrt 3 * 1e-5 := by
  intro m
  obtain ⟨hgate, _⟩ := ipt_cases s i tA tB h
  have hgate' : |(delta s i).dot (nrm s i)| ≤ 1e-5 * (nrm s i).length := hgate
  have h0 : (0 : ℝ) ≤ Real.sqrt 3 * 1e-5 := by positivity
  have key : ∀ (mk nk : ℝ), 1e-5 < |nk| → (nrm s i).length ≤ Real.sqrt 3 * |nk| →
      mk * nk = (delta s i).dot (nrm s i) → |mk| ≤ Real.sqrt 3 * 1e-5 := by
    intro mk nk hk hl hm
    have hpos : 0 < |nk| := lt_trans (by norm_num) hk
    have : |mk| * |nk| ≤ 1e-5 * (Real.sqrt 3 * |nk|) := by
      rw [← abs_mul, hm]
      exact le_trans hgate' (mul_le_mul_of_nonneg_left hl (by norm_num))
    have : |mk| * |nk| ≤ (Real.sqrt 3 * 1e-5) * |nk| := by linarith
    exact le_of_mul_le_mul_right this hpos
  rcases ipt_locates s i tA tB h with ⟨h1, h2, h3, hx, hy, hz⟩ | ⟨h1, h2, h3, hy, hz, hx⟩ | ⟨h1, h2, h3, hx, hz, hy⟩
  · have hl := length_le_sqrt3 (nrm s i) |(nrm s i).z| h2 h3 (le_refl _)
    refine ⟨by rw [show m.x = 0 from hx]; simpa using h0, by rw [show m.y = 0 from hy]; simpa using h0, key _ _ h1 hl hz⟩
  · have hl := length_le_sqrt3 (nrm s i) |(nrm s i).x| (le_refl _) h2 h3
    refine ⟨key _ _ h1 hl hx, by rw [show m.y = 0 from hy]; simpa using h0, by rw [show m.z = 0 from hz]; simpa using h0⟩
  · have hl := length_le_sqrt3 (nrm s i) |(nrm s i).y| h2 (le_refl _) h3
    refine ⟨by rw [show m.x = 0 from hx]; simpa using h0, key _ _ h1 hl hy, by rw [show m.z = 0 from hz]; simpa using h0⟩

/-- **crossing excludes contact at the second segment's end points** … -/
theorem intersect_iff (s i : Segment ℝ) (p : V3 ℝ) :
    s.intersect i = some p ↔
      ∃ tA tB, s.getIntersectionPt i = some (tA, tB) ∧ 0 ≤ tA ∧ tA < 1 ∧ 1e-8 ≤ tB ∧ tB < 1 - 1e-8 ∧ p = at' s tA := by
  unfold Segment.intersect
  cases hg : s.getIntersectionPt i with
  | none => simp
  | some r =>
    obtain ⟨tA, tB⟩ := r
    simp only [inUnitHalfOpen, real_le_dec, real_lt_dec, Bool.and_eq_true, decide_eq_true_eq]
    num_real
    constructor
    · intro h
      split_ifs at h with hc
      cases h
      exact ⟨tA, tB, rfl, hc.1.1, hc.1.2, hc.2.1, hc.2.2, rfl⟩
    · rintro ⟨tA', tB', he, h1, h2, h3, h4, rfl⟩
      cases he
      rw [if_pos ⟨⟨h1, h2⟩, h3, h4⟩]
      rfl

/-- … and touching includes it -/
theorem touches_iff (s i : Segment ℝ) (p : V3 ℝ) :
    s.touches i = some p ↔
      ∃ tA tB, s.getIntersectionPt i = some (tA, tB) ∧ 0 ≤ tA ∧ tA ≤ 1 ∧ 0 ≤ tB ∧ tB ≤ 1 ∧ p = at' s tA := by
  unfold Segment.touches
  cases hg : s.getIntersectionPt i with
  | none => simp
  | some r =>
    obtain ⟨tA, tB⟩ := r
    simp only [inUnitClosed, real_le_dec, Bool.and_eq_true, decide_eq_true_eq]
    num_real
    constructor
    · intro h
      split_ifs at h with hc
      cases h
      exact ⟨tA, tB, rfl, hc.1.1, hc.1.2, hc.2.1, hc.2.2, rfl⟩
    · rintro ⟨tA', tB', he, h1, h2, h3, h4, rfl⟩
      cases he
      rw [if_pos ⟨⟨h1, h2⟩, h3, h4⟩]
      rfl

/-- whatever crosses also touches, at the same point -/
theorem intersect_imp_touches (s i : Segment ℝ) (p : V3 ℝ) (h : s.intersect i = some p) : s.touches i = some p := by
  rw [intersect_iff] at h
  obtain ⟨tA, tB, hg, h1, h2, h3, h4, hp⟩ := h
  rw [touches_iff]
  exact ⟨tA, tB, hg, h1, le_of_lt h2, by linarith, by linarith, hp⟩

/-! ## triangles -/

theorem length_mul_self (v : V3 ℝ) : v.length * v.length = v.lengthSquared := by
  simp only [V3.length, real_sqrt]
  exact Real.mul_self_sqrt (C10.lengthSquared_nonneg v)

theorem triple_u (u v : V3 ℝ) :
    ((u.cross v).cross u).dot u = 0 ∧ (v.cross (u.cross v)).dot u = (u.cross v).lengthSquared := by
  constructor <;> (vec_real; ring)

theorem triple_v (u v : V3 ℝ) :
    ((u.cross v).cross u).dot v = (u.cross v).lengthSquared ∧ (v.cross (u.cross v)).dot v = 0 := by
  constructor <;> (vec_real; ring)

theorem combo_dot (P Q u : V3 ℝ) (s t D : ℝ) :
    ((P.smul s + Q.smul t).sdiv (2 * D)).dot u = (P.dot u * s + Q.dot u * t) / (2 * D) := by
  vec_real; ring

theorem lsq_sub (w u : V3 ℝ) : (w - u).lengthSquared = w.lengthSquared - 2 * w.dot u + u.lengthSquared := by
  vec_real; ring

/-- **the circumcentre is equidistant from the three vertices** (non-degenerate triangle) -/
theorem circumcenter_equidistant (t : Triangle ℝ) (hnd : ((t.b - t.a).cross (t.c - t.a)).lengthSquared ≠ 0) :
    (t.circumcenter - t.a).lengthSquared = (t.circumcenter - t.b).lengthSquared ∧
    (t.circumcenter - t.a).lengthSquared = (t.circumcenter - t.c).lengthSquared := by
  obtain ⟨a, b, c, nrm, ar⟩ := t
  simp only [] at hnd
  obtain ⟨w, hw⟩ : ∃ w, w = ((((b - a).cross (c - a)).cross (b - a)).smul (c - a).lengthSquared
        + ((c - a).cross ((b - a).cross (c - a))).smul (b - a).lengthSquared).sdiv
        (2 * ((b - a).cross (c - a)).lengthSquared) := ⟨_, rfl⟩
  have e : (Triangle.circumcenter ⟨a, b, c, nrm, ar⟩) = a + w := by
    rw [hw]; simp only [Triangle.circumcenter, length_mul_self]; num_real
  have hD : ((b - a).cross (c - a)).lengthSquared ≠ 0 := hnd
  have hwu : w.dot (b - a) = (b - a).lengthSquared / 2 := by
    rw [hw, combo_dot, (triple_u (b - a) (c - a)).1, (triple_u (b - a) (c - a)).2]
    field_simp; ring
  have hwv : w.dot (c - a) = (c - a).lengthSquared / 2 := by
    rw [hw, combo_dot, (triple_v (b - a) (c - a)).1, (triple_v (b - a) (c - a)).2]
    field_simp; ring
  have e1 : a + w - a = w := by apply V3.ext' <;> simp only [V3.add_def, V3.sub_def] <;> num_real <;> ring
  have e2 : a + w - b = w - (b - a) := by apply V3.ext' <;> simp only [V3.add_def, V3.sub_def] <;> num_real <;> ring
  have e3 : a + w - c = w - (c - a) := by apply V3.ext' <;> simp only [V3.add_def, V3.sub_def] <;> num_real <;> ring
  rw [e]
  simp only []
  rw [e1, e2, e3, lsq_sub w (b - a), lsq_sub w (c - a), hwu, hwv]
  constructor <;> ring

/-- **the centroid is the mean of the vertices** -/
theorem centroid_mean (t : Triangle ℝ) :
    t.centroid = ⟨(t.a.x + t.b.x + t.c.x) / 3, (t.a.y + t.b.y + t.c.y) / 3, (t.a.z + t.b.z + t.c.z) / 3⟩ := by
  simp only [Triangle.centroid]; num_real

/-- Heron's expression in squared side lengths equals the squared cross product: the stored area is `|ab × ac| / 2` -/
theorem heron_eq_cross (a b c : V3 ℝ) :
    let la := (a - b).length; let lb := (b - c).length; let lc := (c - a).length
    (lc + lb + la) * ((lc + lb + la) / 2 - la) * ((lc + lb + la) / 2 - lb) * ((lc + lb + la) / 2 - lc) / 2
      = ((b - a).cross (c - a)).lengthSquared / 4 := by
  intro la lb lc
  have hA : la * la = (a - b).lengthSquared := length_mul_self _
  have hB : lb * lb = (b - c).lengthSquared := length_mul_self _
  have hC : lc * lc = (c - a).lengthSquared := length_mul_self _
  have key : (lc + lb + la) * ((lc + lb + la) / 2 - la) * ((lc + lb + la) / 2 - lb) * ((lc + lb + la) / 2 - lc)
      = (2 * (la * la) * (lb * lb) + 2 * (lb * lb) * (lc * lc) + 2 * (lc * lc) * (la * la)
          - (la * la) * (la * la) - (lb * lb) * (lb * lb) - (lc * lc) * (lc * lc)) / 8 := by ring
  rw [key, hA, hB, hC]
  vec_real; ring

/-- **the barycentric coordinates `test_point` computes are the true ones**: for `p = a + α (b − a) + β (c − a)` in the plane of
    a non-degenerate triangle the solve returns exactly `(α, β)` -/
theorem tp_bary (a b c : V3 ℝ) (α β : ℝ)
    (hdet : (b - a).dot (b - a) * (c - a).dot (c - a) - (c - a).dot (b - a) * (c - a).dot (b - a) ≠ 0) :
    let e1 := b - a; let e2 := c - a
    let pa := (a + e1.smul α + e2.smul β) - a
    let det := e1.dot e1 * e2.dot e2 - e2.dot e1 * e2.dot e1
    (e2.dot e2 * e1.dot pa - e2.dot e1 * e2.dot pa) / det = α ∧
    (-(e2.dot e1) * e1.dot pa + e1.dot e1 * e2.dot pa) / det = β := by
  intro e1 e2 pa det
  have hpa : pa = e1.smul α + e2.smul β := by
    simp only [pa]; apply V3.ext' <;> simp only [V3.add_def, V3.sub_def] <;> num_real <;> ring
  have h1 : e1.dot pa = α * e1.dot e1 + β * e2.dot e1 := by rw [hpa]; vec_real; ring
  have h2 : e2.dot pa = α * e2.dot e1 + β * e2.dot e2 := by rw [hpa]; vec_real; ring
  have hd : det ≠ 0 := hdet
  constructor
  · rw [h1, h2, div_eq_iff hd]; simp only [det]; ring
  · rw [h1, h2, div_eq_iff hd]; simp only [det]; ring

/-- the classification as a function of the computed coordinates (`tiny = 100·EPSILON`) -/
theorem tp_inside_of (t : Triangle ℝ) (p : V3 ℝ) (alpha beta : ℝ)
    (ha : alpha = ((t.c - t.a).dot (t.c - t.a) * (t.b - t.a).dot (p - t.a) - (t.c - t.a).dot (t.b - t.a) * (t.c - t.a).dot (p - t.a))
      / ((t.b - t.a).dot (t.b - t.a) * (t.c - t.a).dot (t.c - t.a) - (t.c - t.a).dot (t.b - t.a) * (t.c - t.a).dot (t.b - t.a)))
    (hb : beta = (-((t.c - t.a).dot (t.b - t.a)) * (t.b - t.a).dot (p - t.a) + (t.b - t.a).dot (t.b - t.a) * (t.c - t.a).dot (p - t.a))
      / ((t.b - t.a).dot (t.b - t.a) * (t.c - t.a).dot (t.c - t.a) - (t.c - t.a).dot (t.b - t.a) * (t.c - t.a).dot (t.b - t.a)))
    (h1 : (tiny100 : ℝ) < alpha) (h2 : (tiny100 : ℝ) < beta) (h3 : (tiny100 : ℝ) < 1 - alpha - beta) :
    t.testPoint p = .inside := by
  have ht : (0 : ℝ) < tiny100 := by simp only [tiny100]; num_real; norm_num
  unfold Triangle.testPoint
  simp only []
  rw [← ha, ← hb]
  simp only [real_ge_dec, real_le_dec, Bool.and_eq_true, decide_eq_true_eq]
  num_real
  rw [if_pos ⟨⟨by linarith, by linarith⟩, by linarith⟩]
  rw [if_neg (by intro h; linarith [h.1]), if_neg (by intro h; linarith [h.1]), if_neg (by intro h; linarith [h.1]),
    if_neg (by linarith), if_neg (by linarith), if_neg (by linarith)]

theorem tp_outside_of (t : Triangle ℝ) (p : V3 ℝ) (alpha beta : ℝ)
    (ha : alpha = ((t.c - t.a).dot (t.c - t.a) * (t.b - t.a).dot (p - t.a) - (t.c - t.a).dot (t.b - t.a) * (t.c - t.a).dot (p - t.a))
      / ((t.b - t.a).dot (t.b - t.a) * (t.c - t.a).dot (t.c - t.a) - (t.c - t.a).dot (t.b - t.a) * (t.c - t.a).dot (t.b - t.a)))
    (hb : beta = (-((t.c - t.a).dot (t.b - t.a)) * (t.b - t.a).dot (p - t.a) + (t.b - t.a).dot (t.b - t.a) * (t.c - t.a).dot (p - t.a))
      / ((t.b - t.a).dot (t.b - t.a) * (t.c - t.a).dot (t.c - t.a) - (t.c - t.a).dot (t.b - t.a) * (t.c - t.a).dot (t.b - t.a)))
    (h : alpha < -(tiny100 : ℝ) ∨ beta < -(tiny100 : ℝ) ∨ 1 - alpha - beta < -(tiny100 : ℝ)) :
    t.testPoint p = .outside := by
  unfold Triangle.testPoint
  simp only []
  rw [← ha, ← hb]
  simp only [real_ge_dec, real_le_dec, Bool.and_eq_true, decide_eq_true_eq]
  num_real
  rw [if_neg]
  rintro ⟨⟨h1, h2⟩, h3⟩
  rcases h with h | h | h <;> linarith

/-! ## vectors -/

/-- `is_parallel`, exactly: both vectors pass `is_zero = false` and `|a × v|² < 1e-5` -/
theorem isParallel_iff (a v : V3 ℝ) :
    a.isParallel v = true ↔ v.isZero = false ∧ a.isZero = false ∧ (a.cross v).lengthSquared < 1e-5 := by
  unfold V3.isParallel
  by_cases hz : (v.isZero || a.isZero) = true
  · simp only [hz, if_true]
    simp only [Bool.or_eq_true] at hz
    constructor
    · intro h; cases h
    · rintro ⟨h1, h2, _⟩; rcases hz with h | h <;> simp_all
  · simp only [hz]
    simp only [Bool.or_eq_true, not_or, Bool.not_eq_true] at hz
    simp only [real_lt_dec]
    num_real
    simp only [C11.lagrange, abs_neg, abs_of_nonneg (C10.lengthSquared_nonneg _), Bool.false_eq_true, if_false,
      decide_eq_true_eq]
    exact ⟨fun h => ⟨hz.1, hz.2, h⟩, fun h => h.2.2⟩

/-- `is_same_direction` = parallel and positive dot product -/
theorem sameDirection_iff (a v : V3 ℝ) : a.isSameDirection v = true ↔ a.isParallel v = true ∧ 0 < a.dot v := by
  unfold V3.isSameDirection
  by_cases hp : a.isParallel v = true
  · simp only [hp, Bool.not_true, Bool.false_eq_true, if_false, real_gt_dec, decide_eq_true_eq, true_and]
    num_real
  · simp [hp]

/-- **`get_perpendicular` returns a unit vector perpendicular to its argument** -/
theorem perp_is_perp (a p : V3 ℝ) (h : a.getPerpendicular = some p) : a.dot p = 0 := by
  unfold V3.getPerpendicular at h
  simp only [] at h
  have ht : (0 : ℝ) < tiny100 := by simp only [tiny100]; num_real; norm_num
  split_ifs at h with h1 h2 h3
  · simp only [real_gt_dec, decide_eq_true_eq] at h1; num_real_at h1
    have hx : a.x ≠ 0 := by intro h0; rw [h0] at h1; simp at h1; linarith
    cases h
    vec_real
    generalize a.x / Real.sqrt (a.x * a.x + a.y * a.y) = q
    field_simp; ring
  · simp only [real_gt_dec, decide_eq_true_eq] at h2; num_real_at h2
    have hy : a.y ≠ 0 := by intro h0; rw [h0] at h2; simp at h2; linarith
    cases h
    vec_real
    generalize a.y / Real.sqrt (a.x * a.x + a.y * a.y) = q
    field_simp; ring
  · simp only [real_gt_dec, decide_eq_true_eq] at h3; num_real_at h3
    have hz : a.z ≠ 0 := by intro h0; rw [h0] at h3; simp at h3; linarith
    cases h
    vec_real
    generalize a.z / Real.sqrt (a.z * a.z + a.x * a.x) = q
    field_simp; ring

/-- `is_collinear`, exactly (when no two of the points coincide for `compare`): `|(b − a) × (c − b)| < 1e-5` -/
theorem collinear_iff (a b c : V3 ℝ) (hab : a.compare b = false) (hac : a.compare c = false) (hbc : b.compare c = false) :
    a.isCollinear b c = some (decide (((b - a).cross (c - b)).length < 1e-5)) := by
  unfold V3.isCollinear
  simp only [hab, hac, hbc, Bool.false_and, Bool.or_self, Bool.false_eq_true, if_false, real_lt_dec]
  num_real
  rfl

/-! ## surface areas -/

/-- a full sphere: `4πr²` -/
theorem sphere_area_full (s : Sphere ℝ) (hz0 : s.zmin = -s.radius) (hz1 : s.zmax = s.radius) (hphi : s.phiMax = 2 * Real.pi) :
    s.area = 4 * Real.pi * s.radius ^ 2 := by
  simp only [Sphere.area, hz0, hz1, hphi]; num_real; ring

/-- a spherical zone cut by `φ_max`: `φ_max · r · (z_max − z_min)` (Archimedes' hat-box formula) -/
theorem sphere_zone_area (s : Sphere ℝ) : s.area = s.phiMax * s.radius * (s.zmax - s.zmin) := by
  simp only [Sphere.area]

/-- a full open cylinder: `2πr·h` -/
theorem cylinder_area_full (c : Cylinder ℝ) (hphi : c.phiMax = 2 * Real.pi) :
    c.area = 2 * Real.pi * c.radius * (c.zmax - c.zmin) := by
  simp only [Cylinder.area, hphi]; num_real; ring

/-- a full disk: `πR²`; an annulus sector: `φ_max/2 · (R² − r²)` -/
theorem disk_area_full (d : Disk ℝ) (hphi : d.phiMax = 2 * Real.pi) (hin : d.innerRadius = 0) :
    d.area = Real.pi * d.radius ^ 2 := by
  simp only [Disk.area, hphi, hin]; num_real; norm_num; ring

theorem annulus_sector_area (d : Disk ℝ) :
    d.area = d.phiMax / 2 * (d.radius ^ 2 - d.innerRadius ^ 2) := by
  simp only [Disk.area]; num_real; norm_num; ring

/-- a box: `2 (dx·dy + dx·dz + dy·dz)` -/
theorem box_surface_area (b : BBox ℝ) :
    b.surfaceArea = 2 * ((b.max.x - b.min.x) * (b.max.y - b.min.y) + (b.max.x - b.min.x) * (b.max.z - b.min.z)
      + (b.max.y - b.min.y) * (b.max.z - b.min.z)) := by
  simp only [BBox.surfaceArea]; vec_real

/-! ## the circumradius is the true one; the aspect ratio is circumradius over shortest edge -/

theorem circ_num_sq (u v : V3 ℝ) :
    (((u.cross v).cross u).smul v.lengthSquared + (v.cross (u.cross v)).smul u.lengthSquared).lengthSquared
      = u.lengthSquared * v.lengthSquared * (u - v).lengthSquared * (u.cross v).lengthSquared := by
  vec_real; ring

theorem sdiv_lsq (N : V3 ℝ) (k : ℝ) (hk : k ≠ 0) : (N.sdiv k).lengthSquared = N.lengthSquared / (k * k) := by
  vec_real; field_simp

theorem squaredDistance_eq (p q : V3 ℝ) : p.squaredDistance q = (q - p).lengthSquared := by
  simp only [V3.squaredDistance]; vec_real; ring

theorem distance_mul_self (p q : V3 ℝ) : p.distance q * p.distance q = (q - p).lengthSquared := by
  simp only [V3.distance, real_sqrt]
  rw [Real.mul_self_sqrt (by rw [squaredDistance_eq]; exact C10.lengthSquared_nonneg _), squaredDistance_eq]

theorem distance_nonneg (p q : V3 ℝ) : 0 ≤ p.distance q := by
  simp only [V3.distance, real_sqrt]; exact Real.sqrt_nonneg _

/-- the Heron-type product under the root of `circumradius` is four times the squared cross product -/
theorem heron_product (la lb lc A B C D : ℝ) (ha : la * la = A) (hb : lb * lb = B) (hc : lc * lc = C)
    (hD : 4 * D = 2 * A * B + 2 * B * C + 2 * C * A - A * A - B * B - C * C) :
    (la + lb + lc) * (lb + lc - la) * (lc + la - lb) * (la + lb - lc) = 4 * D := by
  rw [hD, ← ha, ← hb, ← hc]; ring

theorem lagrange_sides (u v : V3 ℝ) :
    4 * (u.cross v).lengthSquared = 2 * u.lengthSquared * (u - v).lengthSquared + 2 * (u - v).lengthSquared * v.lengthSquared
      + 2 * v.lengthSquared * u.lengthSquared - u.lengthSquared * u.lengthSquared
      - (u - v).lengthSquared * (u - v).lengthSquared - v.lengthSquared * v.lengthSquared := by
  vec_real; ring

/-- **the value `circumradius()` returns is the true circumradius**: its square is the squared distance from the circumcentre
    to the vertices (non-degenerate triangle; exact semantics) -/
theorem circumradius_sq (t : Triangle ℝ) (hnd : ((t.b - t.a).cross (t.c - t.a)).lengthSquared ≠ 0) :
    t.circumradius * t.circumradius = (t.circumcenter - t.a).lengthSquared := by
  obtain ⟨a, b, c, nrm, ar⟩ := t
  simp only [] at hnd
  have hDpos : 0 < ((b - a).cross (c - a)).lengthSquared :=
    lt_of_le_of_ne (C10.lengthSquared_nonneg _) (Ne.symm hnd)
  -- the circumcentre
  have e : (Triangle.circumcenter ⟨a, b, c, nrm, ar⟩) - a =
      ((((b - a).cross (c - a)).cross (b - a)).smul (c - a).lengthSquared
        + ((c - a).cross ((b - a).cross (c - a))).smul (b - a).lengthSquared).sdiv
        (2 * ((b - a).cross (c - a)).lengthSquared) := by
    simp only [Triangle.circumcenter, length_mul_self]
    apply V3.ext' <;> simp only [V3.add_def, V3.sub_def, V3.sdiv] <;> num_real <;> ring
  rw [e, sdiv_lsq _ _ (by positivity), circ_num_sq]
  -- the radius
  simp only [Triangle.circumradius, Triangle.ab, Triangle.bc, Triangle.ca, Segment.new, real_sqrt]
  have hA := distance_mul_self a b
  have hB := distance_mul_self b c
  have hC := distance_mul_self c a
  have hCv : (a - c).lengthSquared = (c - a).lengthSquared := by vec_real; ring
  have hBv : (c - b).lengthSquared = ((b - a) - (c - a)).lengthSquared := by vec_real; ring
  rw [hCv] at hC
  rw [hBv] at hB
  have hs := heron_product (a.distance b) (b.distance c) (c.distance a) _ _ _ _ hA hB hC
    (lagrange_sides (b - a) (c - a))
  rw [hs]
  have hsq : Real.sqrt (4 * ((b - a).cross (c - a)).lengthSquared) * Real.sqrt (4 * ((b - a).cross (c - a)).lengthSquared)
      = 4 * ((b - a).cross (c - a)).lengthSquared := Real.mul_self_sqrt (by positivity)
  have hne : Real.sqrt (4 * ((b - a).cross (c - a)).lengthSquared) ≠ 0 := by
    intro h0; rw [h0] at hsq; linarith
  rw [div_mul_div_comm, hsq]
  have hnum : a.distance b * b.distance c * c.distance a * (a.distance b * b.distance c * c.distance a)
      = (b - a).lengthSquared * ((b - a) - (c - a)).lengthSquared * (c - a).lengthSquared := by
    rw [← hA, ← hB, ← hC]; ring
  rw [hnum]
  field_simp
  ring

theorem circumradius_nonneg (t : Triangle ℝ) : 0 ≤ t.circumradius := by
  simp only [Triangle.circumradius, Triangle.ab, Triangle.bc, Triangle.ca, Segment.new, real_sqrt]
  apply div_nonneg
  · exact mul_nonneg (mul_nonneg (distance_nonneg _ _) (distance_nonneg _ _)) (distance_nonneg _ _)
  · exact Real.sqrt_nonneg _

/-- … so `circumradius()` IS the distance from the circumcentre to the vertices -/
theorem circumradius_eq (t : Triangle ℝ) (hnd : ((t.b - t.a).cross (t.c - t.a)).lengthSquared ≠ 0) :
    t.circumradius = (t.circumcenter - t.a).length := by
  have h := circumradius_sq t hnd
  have h0 := circumradius_nonneg t
  simp only [V3.length, real_sqrt]
  rw [← h, Real.sqrt_mul_self h0]

/-- **the aspect ratio the mesher caches and compares is the true circumradius over the shortest edge** (edges below 1e19) -/
theorem aspectRatio_eq (t : Triangle ℝ) (hnd : ((t.b - t.a).cross (t.c - t.a)).lengthSquared ≠ 0) :
    t.aspectRatio = (t.circumcenter - t.a).length
      / min (min (min (1e19 : ℝ) t.ab.length) t.bc.length) t.ca.length := by
  rw [← circumradius_eq t hnd]
  simp only [Triangle.aspectRatio]
  have pick : ∀ x m : ℝ, (if (x <. m) = true then x else m) = min m x := by
    intro x m
    by_cases h : x < m
    · have : (x <. m) = true := by bool_real; exact h
      rw [if_pos this, min_eq_right (le_of_lt h)]
    · have : ¬ ((x <. m) = true) := by bool_real; exact not_lt.1 h
      rw [if_neg this, min_eq_left (not_lt.1 h)]
  rw [pick, pick, pick]
  num_real

/-! ## all classes of `test_point` -/

/-- the barycentric coordinates as `test_point` computes them -/
def tpAlpha (t : Triangle ℝ) (p : V3 ℝ) : ℝ :=
  ((t.c - t.a).dot (t.c - t.a) * (t.b - t.a).dot (p - t.a) - (t.c - t.a).dot (t.b - t.a) * (t.c - t.a).dot (p - t.a))
    / ((t.b - t.a).dot (t.b - t.a) * (t.c - t.a).dot (t.c - t.a) - (t.c - t.a).dot (t.b - t.a) * (t.c - t.a).dot (t.b - t.a))
def tpBeta (t : Triangle ℝ) (p : V3 ℝ) : ℝ :=
  (-((t.c - t.a).dot (t.b - t.a)) * (t.b - t.a).dot (p - t.a) + (t.b - t.a).dot (t.b - t.a) * (t.c - t.a).dot (p - t.a))
    / ((t.b - t.a).dot (t.b - t.a) * (t.c - t.a).dot (t.c - t.a) - (t.c - t.a).dot (t.b - t.a) * (t.c - t.a).dot (t.b - t.a))

/-- `test_point` as a function of those coordinates and the tolerance `T = 100·EPSILON` -/
theorem tp_eval (t : Triangle ℝ) (p : V3 ℝ) :
    t.testPoint p =
      (let α := tpAlpha t p; let β := tpBeta t p; let w := 1 - α - β; let T : ℝ := tiny100
       if -T ≤ α ∧ -T ≤ β ∧ -T ≤ w then
         if α ≤ T ∧ β ≤ T then PointInTriangle.vertexA
         else if α ≤ T ∧ w ≤ T then .vertexC
         else if β ≤ T ∧ w ≤ T then .vertexB
         else if α ≤ T then .edgeAC
         else if w ≤ T then .edgeBC
         else if β ≤ T then .edgeAB
         else .inside
       else .outside) := by
  unfold Triangle.testPoint tpAlpha tpBeta
  simp only [real_ge_dec, real_le_dec, Bool.and_eq_true, decide_eq_true_eq]
  num_real
  simp only [and_assoc]

/-- **every class of `test_point`, in terms of the true barycentric coordinates** (`tp_bary`) and the documented tolerance `T`:
    a coordinate counts as zero when it is within `±T`, as positive when it exceeds `T`, and the point is outside as soon as a
    coordinate is below `−T` -/
theorem tp_classes (t : Triangle ℝ) (p : V3 ℝ) :
    let α := tpAlpha t p; let β := tpBeta t p; let w := 1 - α - β; let T : ℝ := tiny100
    (|α| ≤ T → |β| ≤ T → t.testPoint p = .vertexA) ∧
    (|β| ≤ T → |w| ≤ T → t.testPoint p = .vertexB) ∧
    (|α| ≤ T → |w| ≤ T → t.testPoint p = .vertexC) ∧
    (|β| ≤ T → T < α → T < w → t.testPoint p = .edgeAB) ∧
    (|w| ≤ T → T < α → T < β → t.testPoint p = .edgeBC) ∧
    (|α| ≤ T → T < β → T < w → t.testPoint p = .edgeAC) ∧
    (T < α → T < β → T < w → t.testPoint p = .inside) ∧
    (α < -T ∨ β < -T ∨ w < -T → t.testPoint p = .outside) := by
  intro α β w T
  have hT : (0 : ℝ) < T := by simp only [T, tiny100]; num_real; norm_num
  have hT1 : T < 1 / 4 := by simp only [T, tiny100]; num_real; norm_num
  have hw : w = 1 - α - β := rfl
  rw [tp_eval]
  simp only []
  refine ⟨?_, ?_, ?_, ?_, ?_, ?_, ?_, ?_⟩
  · intro ha hb
    obtain ⟨a1, a2⟩ := abs_le.1 ha
    obtain ⟨b1, b2⟩ := abs_le.1 hb
    rw [if_pos ⟨a1, b1, by linarith⟩, if_pos ⟨a2, b2⟩]
  · intro hb hw'
    obtain ⟨b1, b2⟩ := abs_le.1 hb
    obtain ⟨w1, w2⟩ := abs_le.1 hw'
    have : T < α := by linarith
    rw [if_pos ⟨by linarith, b1, w1⟩, if_neg (by intro h; linarith [h.1]), if_neg (by intro h; linarith [h.1]),
      if_pos ⟨b2, w2⟩]
  · intro ha hw'
    obtain ⟨a1, a2⟩ := abs_le.1 ha
    obtain ⟨w1, w2⟩ := abs_le.1 hw'
    have : T < β := by linarith
    rw [if_pos ⟨a1, by linarith, w1⟩, if_neg (by intro h; linarith [h.2]), if_pos ⟨a2, w2⟩]
  · intro hb ha hw'
    obtain ⟨b1, b2⟩ := abs_le.1 hb
    rw [if_pos ⟨by linarith, b1, by linarith⟩, if_neg (by intro h; linarith [h.1]), if_neg (by intro h; linarith [h.1]),
      if_neg (by intro h; linarith [h.2]), if_neg (by linarith), if_neg (by linarith), if_pos b2]
  · intro hw' ha hb
    obtain ⟨w1, w2⟩ := abs_le.1 hw'
    rw [if_pos ⟨by linarith, by linarith, w1⟩, if_neg (by intro h; linarith [h.1]), if_neg (by intro h; linarith [h.1]),
      if_neg (by intro h; linarith [h.1]), if_neg (by linarith), if_pos w2]
  · intro ha hb hw'
    obtain ⟨a1, a2⟩ := abs_le.1 ha
    rw [if_pos ⟨a1, by linarith, by linarith⟩, if_neg (by intro h; linarith [h.2]), if_neg (by intro h; linarith [h.2]),
      if_neg (by intro h; linarith [h.1]), if_pos a2]
  · intro ha hb hw'
    rw [if_pos ⟨by linarith, by linarith, by linarith⟩, if_neg (by intro h; linarith [h.1]),
      if_neg (by intro h; linarith [h.1]), if_neg (by intro h; linarith [h.1]), if_neg (by linarith), if_neg (by linarith),
      if_neg (by linarith)]
  · intro h
    rw [if_neg]
    rintro ⟨h1, h2, h3⟩
    rcases h with h | h | h <;> linarith

/-! ## `Plane3D::test_point` -/

theorem dot_sub_right (a p c : V3 ℝ) : a.dot (p - c) = a.dot p - a.dot c := by vec_real; ring

/-- `Plane3D::test_point`: true exactly for points whose signed offset along the stored (normalised) normal from the plane's
    anchor point is below `EPSILON` in absolute value -/
theorem plane_testPoint_iff (c n p : V3 ℝ) :
    (Plane.new c n).testPoint p = true ↔ |n.normalize.dot (p - c)| < (Num.eps : ℝ) := by
  simp only [Plane.testPoint, Plane.new, real_lt, abs_real, dot_sub_right]

/-- the anchor point itself is on the plane -/
theorem plane_testPoint_anchor (c n : V3 ℝ) : (Plane.new c n).testPoint c = true := by
  rw [plane_testPoint_iff, dot_sub_right, sub_self, abs_zero, real_eps]; positivity

/-- moving a point along a direction perpendicular to the normal does not change the answer -/
theorem plane_testPoint_inplane (c n p v : V3 ℝ) (hv : n.normalize.dot v = 0) :
    (Plane.new c n).testPoint (p + v) = (Plane.new c n).testPoint p := by
  rw [Bool.eq_iff_iff, plane_testPoint_iff, plane_testPoint_iff]
  have : n.normalize.dot (p + v - c) = n.normalize.dot (p - c) := by
    have e : n.normalize.dot (p + v - c) = n.normalize.dot (p - c) + n.normalize.dot v := by vec_real; ring
    rw [e, hv, add_zero]
  rw [this]

end
end G3d.C19
