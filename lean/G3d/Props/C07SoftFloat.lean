import G3d.Props.C07
import G3d.Props.C17
import G3d.Proofs.SoftFloatRounded
import G3d.Model.Legacy
/-!
# C07 / C17 for concrete IEEE-754 arithmetic, and the recorded findings

`SF b64` / `SF b32` are executable definitions of binary64 / binary32 round-to-nearest-even arithmetic (integer arithmetic
on ordinals, `G3d/SoftFloat.lean`) together with the crate's `next_float_up/down`.  `Proofs/SoftFloatRounded.lean` proves
that they satisfy the rounding laws, so every theorem of `Props/C07.lean` and `Props/C17.lean` holds for them — the
instances below just restate two of them at the concrete types.  The driver runs these very definitions against the crate
on every check (`g3d-driver sf`), bit for bit.

`Findings`: the pre-repair bodies of `Neg`, `Sub` and `Mul<Float>` do NOT enclose; the witnesses are evaluated by the kernel.
-/
namespace G3d.C07
open G3d Num Rounded SF
set_option exponentiation.threshold 5000

/-- binary64: interval multiplication encloses (instance of `mul_encloses`) -/
theorem mul_encloses_b64 {a b : Approx (SF b64)} {al ah bl bh x y : ℝ}
    (ha : WFin a al ah) (hb : WFin b bl bh) (h1 : al ≤ x) (h2 : x ≤ ah) (h3 : bl ≤ y) (h4 : y ≤ bh) :
    Encl (a.mul b) (x * y) := mul_encloses ha hb h1 h2 h3 h4

/-- binary32: in-place division encloses (instance of `divAssign_encloses`) -/
theorem divAssign_encloses_b32 {a b : Approx (SF b32)} {al ah bl bh x y : ℝ}
    (ha : WFin a al ah) (hb : WFin b bl bh) (h0 : 0 < bl ∨ bh < 0)
    (h1 : al ≤ x) (h2 : x ≤ ah) (h3 : bl ≤ y) (h4 : y ≤ bh) :
    Encl (a.divAssign b) (x / y) := divAssign_encloses ha hb h0 h1 h2 h3 h4

/-! ### non-vacuity at binary64: `1.0`, `2.0`, `10.0` are finite floats with those values -/
def f1 : SF b64 := SF.fin false 4607182418800017408
def f2 : SF b64 := SF.fin false 4611686018427387904
def f10 : SF b64 := SF.fin false 4621819117588971520

theorem is_f1 : Is f1 1 := ⟨fun h => h, by
  show SF.val f1 = _
  rw [f1, val_of_scaled (k := 1) (d := 1) (by decide +kernel) (by decide +kernel) (by norm_num)]; norm_num⟩
theorem is_f2 : Is f2 2 := ⟨fun h => h, by
  show SF.val f2 = _
  rw [f2, val_of_scaled (k := 2) (d := 1) (by decide +kernel) (by decide +kernel) (by norm_num)]; norm_num⟩
theorem is_f10 : Is f10 10 := ⟨fun h => h, by
  show SF.val f10 = _
  rw [f10, val_of_scaled (k := 10) (d := 1) (by decide +kernel) (by decide +kernel) (by norm_num)]; norm_num⟩

/-- the hypotheses of the enclosure theorems are met by the binary64 interval `[1, 2]` -/
example : WFin (⟨f1, f2⟩ : Approx (SF b64)) 1 2 := ⟨is_f1, is_f2, by norm_num⟩

/-- … and the repaired subtraction encloses `1 − 10` for `[1,2] − [0… 10]`-style operands (here `[1,2] − [2,10]`) -/
example : Encl ((⟨f1, f2⟩ : Approx (SF b64)).sub ⟨f2, f10⟩) (1 - 10) :=
  sub_encloses (al := 1) (ah := 2) (bl := 2) (bh := 10) ⟨is_f1, is_f2, by norm_num⟩ ⟨is_f2, is_f10, by norm_num⟩
    (by norm_num) (by norm_num) (by norm_num) (by norm_num)

namespace Findings

/-- **finding (repaired in 1557ac1)**: the pre-repair `Neg` returns an ill-formed interval for `[1, 2]`: low `-1` > high `-2` -/
theorem legacy_neg_ill_formed :
    SF.lt (Legacy.neg (⟨f1, f2⟩ : Approx (SF b64))).high (Legacy.neg (⟨f1, f2⟩ : Approx (SF b64))).low = true := by
  decide +kernel

/-- **finding (repaired in 112dde5)**: the pre-repair `Sub` on `[1,2] − [2,10]` returns high `≈ −8`, below low `≈ −1`: the exact
    result `1 − 10 = −9` is not enclosed and the interval is ill formed -/
theorem legacy_sub_ill_formed :
    SF.lt (Legacy.sub (⟨f1, f2⟩ : Approx (SF b64)) ⟨f2, f10⟩).high (Legacy.sub (⟨f1, f2⟩ : Approx (SF b64)) ⟨f2, f10⟩).low = true := by
  decide +kernel

/-- the repaired bodies on the same operands are well formed (low ≤ high) -/
theorem repaired_sub_well_formed :
    SF.le ((⟨f1, f2⟩ : Approx (SF b64)).sub ⟨f2, f10⟩).low ((⟨f1, f2⟩ : Approx (SF b64)).sub ⟨f2, f10⟩).high = true := by
  decide +kernel

/-- **finding (repaired in 74b661e)**: pre-repair `Mul<Float>` with a negative scalar: for `[0.1, 0.2]` times `−0.3` the returned
    lower bound is the rounded product `fl(0.2·(−0.3))` itself (nudged up and down again: no outward step), while the repaired body
    returns a bound strictly below it -/
theorem legacy_mulF_not_outward :
    (Legacy.mulF (⟨SF.ofBits 0x3FB999999999999A, SF.ofBits 0x3FC999999999999A⟩ : Approx (SF b64)) (SF.ofBits 0xBFD3333333333333)).low
        = SF.mul (SF.ofBits 0x3FC999999999999A) (SF.ofBits 0xBFD3333333333333 : SF b64) ∧
    SF.lt ((⟨SF.ofBits 0x3FB999999999999A, SF.ofBits 0x3FC999999999999A⟩ : Approx (SF b64)).mulF (SF.ofBits 0xBFD3333333333333)).low
        (SF.mul (SF.ofBits 0x3FC999999999999A) (SF.ofBits 0xBFD3333333333333 : SF b64)) = true := by
  decide +kernel

end Findings
end G3d.C07
