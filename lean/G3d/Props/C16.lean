import G3d.Props.C06
import Mathlib.Tactic.Positivity
/-!
# C16 — reported transform error bounds

What is proved here (and what is not):

* `gamma_covers` — the real-analysis core of the bound: a sum `((p₀ + p₁) + p₂) + t` of three products and a constant,
  evaluated left to right with every operation carrying a relative rounding error `|δ| ≤ u`, differs from the exact
  value by at most `γ(4)·(|p₀|+|p₁|+|p₂|+|t|)` with `γ(4) = 4u/(1−4u)`; for the three-term sum of a vector `γ(3)` suffices.
  (This is why the repaired code uses `gamma!(4)` for points: with `gamma!(3)` the statement is false,
  `gamma3_insufficient`.)
* `vec_error_ignores_translation`, `carried_error_ignores_translation` — the reported error of a vector, and the part of
  any reported error that is carried over from the input error, do not depend on the translation column, for **every**
  scalar type (so they cannot grow with the translation; false before the repair).
* `advance_le_bound`, `error_box_not_ahead` (exact semantics) — a transformed ray's origin is advanced, per axis, by at
  most the sum of the components of its error bound, and after the advance no point of the origin's error box lies ahead
  of it along the direction.
* exact semantics sanity: with exact arithmetic the returned value *is* the exact image and every reported error is ≥ 0.

Not proved: the end-to-end floating-point statement "|computed − exact| ≤ computed bound" for the soft-float instance
(the bound itself is evaluated in floating point; see DESIGN.md).  The exact oracle checks it on every run against the
stored matrix, including adversarial operands.
-/
namespace G3d.C16
open G3d Num C15 C06

/-! ## the rounding-error core -/

theorem abs_mul_sub_one {x y A B : ℝ} (hx : |x - 1| ≤ A) (hy : |y - 1| ≤ B) :
    |x * y - 1| ≤ (1 + A) * (1 + B) - 1 := by
  have hA : 0 ≤ A := le_trans (abs_nonneg _) hx
  have e : x * y - 1 = (x - 1) * (y - 1) + (x - 1) + (y - 1) := by ring
  rw [e]
  have h1 : |(x - 1) * (y - 1)| ≤ A * B := by
    rw [abs_mul]; exact mul_le_mul hx hy (abs_nonneg _) hA
  have t := abs_add_le ((x - 1) * (y - 1) + (x - 1)) (y - 1)
  have t2 := abs_add_le ((x - 1) * (y - 1)) (x - 1)
  nlinarith

theorem one_add_pow4 {u d1 d2 d3 d4 : ℝ} (_hu : 0 ≤ u)
    (h1 : |d1| ≤ u) (h2 : |d2| ≤ u) (h3 : |d3| ≤ u) (h4 : |d4| ≤ u) :
    |(1 + d1) * (1 + d2) * (1 + d3) * (1 + d4) - 1| ≤ (1 + u) ^ 4 - 1 := by
  have a1 : |(1 + d1) - 1| ≤ u := by simpa using h1
  have a2 : |(1 + d2) - 1| ≤ u := by simpa using h2
  have a3 : |(1 + d3) - 1| ≤ u := by simpa using h3
  have a4 : |(1 + d4) - 1| ≤ u := by simpa using h4
  have s12 := abs_mul_sub_one a1 a2
  have s123 := abs_mul_sub_one s12 a3
  have s1234 := abs_mul_sub_one s123 a4
  refine le_trans s1234 (le_of_eq ?_)
  ring

/-- `(1+u)⁴ − 1 ≤ γ(4) = 4u/(1−4u)` -/
theorem pow4_le_gamma4 {u : ℝ} (hu : 0 ≤ u) (hu4 : 4 * u < 1) : (1 + u) ^ 4 - 1 ≤ 4 * u / (1 - 4 * u) := by
  rw [le_div_iff₀ (by linarith)]
  nlinarith [mul_nonneg hu hu, mul_nonneg (mul_nonneg hu hu) hu, mul_nonneg (mul_nonneg (mul_nonneg hu hu) hu) hu]

/-- **γ(4) covers the left-to-right evaluation of `p₀ + p₁ + p₂ + t`** where `pᵢ` are rounded products:
    `d0 d1 d2` round the products, `s1 s2 s3` the three additions. -/
theorem gamma_covers {u p0 p1 p2 t d0 d1 d2 s1 s2 s3 : ℝ} (hu : 0 ≤ u) (hu4 : 4 * u < 1)
    (h0 : |d0| ≤ u) (h1 : |d1| ≤ u) (h2 : |d2| ≤ u) (g1 : |s1| ≤ u) (g2 : |s2| ≤ u) (g3 : |s3| ≤ u) :
    |(((p0 * (1 + d0) + p1 * (1 + d1)) * (1 + s1) + p2 * (1 + d2)) * (1 + s2) + t) * (1 + s3) - (p0 + p1 + p2 + t)|
      ≤ 4 * u / (1 - 4 * u) * (|p0| + |p1| + |p2| + |t|) := by
  have z : |(0:ℝ)| ≤ u := by simpa using hu
  have k0 := one_add_pow4 hu h0 g1 g2 g3
  have k1 := one_add_pow4 hu h1 g1 g2 g3
  have k2 := one_add_pow4 hu h2 g2 g3 z
  have k3 := one_add_pow4 hu g3 z z z
  have G := pow4_le_gamma4 hu hu4
  set γ := 4 * u / (1 - 4 * u)
  have e : (((p0 * (1 + d0) + p1 * (1 + d1)) * (1 + s1) + p2 * (1 + d2)) * (1 + s2) + t) * (1 + s3) - (p0 + p1 + p2 + t)
      = p0 * ((1 + d0) * (1 + s1) * (1 + s2) * (1 + s3) - 1) + p1 * ((1 + d1) * (1 + s1) * (1 + s2) * (1 + s3) - 1)
        + p2 * ((1 + d2) * (1 + s2) * (1 + s3) * (1 + 0) - 1) + t * ((1 + s3) * (1 + 0) * (1 + 0) * (1 + 0) - 1) := by ring
  rw [e]
  have b0 : |p0 * ((1 + d0) * (1 + s1) * (1 + s2) * (1 + s3) - 1)| ≤ γ * |p0| := by
    rw [abs_mul, mul_comm]; exact mul_le_mul_of_nonneg_right (le_trans k0 G) (abs_nonneg _)
  have b1 : |p1 * ((1 + d1) * (1 + s1) * (1 + s2) * (1 + s3) - 1)| ≤ γ * |p1| := by
    rw [abs_mul, mul_comm]; exact mul_le_mul_of_nonneg_right (le_trans k1 G) (abs_nonneg _)
  have b2 : |p2 * ((1 + d2) * (1 + s2) * (1 + s3) * (1 + 0) - 1)| ≤ γ * |p2| := by
    rw [abs_mul, mul_comm]; exact mul_le_mul_of_nonneg_right (le_trans k2 G) (abs_nonneg _)
  have b3 : |t * ((1 + s3) * (1 + 0) * (1 + 0) * (1 + 0) - 1)| ≤ γ * |t| := by
    rw [abs_mul, mul_comm]; exact mul_le_mul_of_nonneg_right (le_trans k3 G) (abs_nonneg _)
  calc _ ≤ |p0 * _| + |p1 * _| + |p2 * _| + |t * _| := by
        refine le_trans (abs_add_le _ _) (add_le_add (le_trans (abs_add_le _ _) (add_le_add (abs_add_le _ _) (le_refl _))) (le_refl _))
    _ ≤ γ * |p0| + γ * |p1| + γ * |p2| + γ * |t| := by linarith
    _ = γ * (|p0| + |p1| + |p2| + |t|) := by ring

/-- with `γ(3)` the bound is false: four roundings all erring by `+u` on a single dominant product -/
theorem gamma3_insufficient :
    ∃ u p0 : ℝ, 0 < u ∧ 3 * u < 1 ∧ 0 < p0 ∧
      ¬ (|(((p0 * (1 + u) + 0) * (1 + u) + 0) * (1 + u) + 0) * (1 + u) - p0| ≤ 3 * u / (1 - 3 * u) * |p0|) := by
  refine ⟨1 / 1000, 1, by norm_num, by norm_num, by norm_num, ?_⟩
  norm_num [abs_of_pos]

/-! ## no translation in vector errors and carried errors (any scalar type) -/

section generic
variable {α : Type} [Num α]

/-- two matrices that differ at most in their translation column -/
def SameLinear (m m' : M4 α) : Prop :=
  m.a00 = m'.a00 ∧ m.a01 = m'.a01 ∧ m.a02 = m'.a02 ∧ m.a10 = m'.a10 ∧ m.a11 = m'.a11 ∧ m.a12 = m'.a12 ∧
  m.a20 = m'.a20 ∧ m.a21 = m'.a21 ∧ m.a22 = m'.a22

theorem vec_error_ignores_translation {m m' : M4 α} (h : SameLinear m m') (v : V3 α) :
    Transform.vecWithError m v = Transform.vecWithError m' v := by
  obtain ⟨h0, h1, h2, h3, h4, h5, h6, h7, h8⟩ := h
  simp only [Transform.vecWithError, M4.mulVec, M4.mulAbs3, h0, h1, h2, h3, h4, h5, h6, h7, h8]

theorem vec_propagated_error_ignores_translation {m m' : M4 α} (h : SameLinear m m') (v e : V3 α) :
    Transform.vecPropagateError m v e = Transform.vecPropagateError m' v e := by
  obtain ⟨h0, h1, h2, h3, h4, h5, h6, h7, h8⟩ := h
  simp only [Transform.vecPropagateError, Transform.vecWithError, M4.mulVec, M4.mulAbs3, h0, h1, h2, h3, h4, h5, h6, h7, h8]

/-- the part of a propagated *point* error that is carried from the input error (`err1`) ignores the translation -/
theorem carried_error_ignores_translation {m m' : M4 α} (h : SameLinear m m') (e : V3 α) :
    (m.mulAbs3 e.x e.y e.z).smul (1 + gamma (3 : α)) = (m'.mulAbs3 e.x e.y e.z).smul (1 + gamma (3 : α)) := by
  obtain ⟨h0, h1, h2, h3, h4, h5, h6, h7, h8⟩ := h
  simp only [M4.mulAbs3, h0, h1, h2, h3, h4, h5, h6, h7, h8]

theorem ptPropagate_decomposes (m : M4 α) (p e : V3 α) :
    (Transform.ptPropagateError m p e).2 =
      (m.mulAbs3 e.x e.y e.z).smul (1 + gamma (3 : α)) + (Transform.ptWithError m p).2 := rfl

end generic

/-! ## the advanced ray origin (exact semantics) -/

/-- per axis the origin moves by at most the sum of the components of its error bound -/
theorem advance_le_bound (d e : V3 ℝ) (hx : 0 ≤ e.x) (hy : 0 ≤ e.y) (hz : 0 ≤ e.z) (hd : 0 < d.lengthSquared) :
    let dt := (d.abs.dot e) / d.lengthSquared
    |d.x * dt| ≤ e.x + e.y + e.z ∧ |d.y * dt| ≤ e.x + e.y + e.z ∧ |d.z * dt| ≤ e.x + e.y + e.z := by
  intro dt
  simp only [V3.lengthSquared] at hd; num_real_at hd
  have L : d.lengthSquared = d.x * d.x + d.y * d.y + d.z * d.z := by simp only [V3.lengthSquared]; num_real
  have hdt : dt = (|d.x| * e.x + |d.y| * e.y + |d.z| * e.z) / (d.x * d.x + d.y * d.y + d.z * d.z) := by
    simp only [dt, L, V3.dot, V3.abs]; num_real
  have key : ∀ c : ℝ, c * c ≤ d.x * d.x + d.y * d.y + d.z * d.z →
      |c * dt| ≤ e.x + e.y + e.z := by
    intro c hc
    rw [hdt, abs_mul, abs_div, abs_of_pos hd, ← mul_div_assoc, div_le_iff₀ hd,
      abs_of_nonneg (by positivity : (0:ℝ) ≤ |d.x| * e.x + |d.y| * e.y + |d.z| * e.z)]
    have cx : |c| * |d.x| ≤ d.x * d.x + d.y * d.y + d.z * d.z := by
      nlinarith [sq_nonneg (|c| - |d.x|), sq_abs c, sq_abs d.x, mul_self_nonneg d.y, mul_self_nonneg d.z, abs_nonneg c, abs_nonneg d.x]
    have cy : |c| * |d.y| ≤ d.x * d.x + d.y * d.y + d.z * d.z := by
      nlinarith [sq_nonneg (|c| - |d.y|), sq_abs c, sq_abs d.y, mul_self_nonneg d.x, mul_self_nonneg d.z, abs_nonneg c, abs_nonneg d.y]
    have cz : |c| * |d.z| ≤ d.x * d.x + d.y * d.y + d.z * d.z := by
      nlinarith [sq_nonneg (|c| - |d.z|), sq_abs c, sq_abs d.z, mul_self_nonneg d.x, mul_self_nonneg d.y, abs_nonneg c, abs_nonneg d.z]
    nlinarith [mul_le_mul_of_nonneg_right cx hx, mul_le_mul_of_nonneg_right cy hy, mul_le_mul_of_nonneg_right cz hz]
  exact ⟨key d.x (by nlinarith [mul_self_nonneg d.y, mul_self_nonneg d.z]),
         key d.y (by nlinarith [mul_self_nonneg d.x, mul_self_nonneg d.z]),
         key d.z (by nlinarith [mul_self_nonneg d.x, mul_self_nonneg d.y])⟩

/-- after the advance no point `o + δ` of the origin's error box (`|δₖ| ≤ eₖ`) lies ahead of the new origin -/
theorem error_box_not_ahead (o d e δ : V3 ℝ) (hd : 0 < d.lengthSquared)
    (bx : |δ.x| ≤ e.x) (by' : |δ.y| ≤ e.y) (bz : |δ.z| ≤ e.z) :
    ((o + δ) - Transform.advanceOrigin o e d).dot d ≤ 0 := by
  have hne : ¬ (d.lengthSquared ≤ 0) := not_le.2 hd
  simp only [Transform.advanceOrigin]
  split_ifs with hc
  swap
  · exact absurd (by rw [real_gt] at hc; num_real_at hc; exact not_lt.1 hc) hne
  have L : d.lengthSquared = d.x * d.x + d.y * d.y + d.z * d.z := by simp only [V3.lengthSquared]; num_real
  have hd' : 0 < d.x * d.x + d.y * d.y + d.z * d.z := by rw [← L]; exact hd
  show (V3.sub (V3.add o δ) (V3.add o (d.smul _))).dot d ≤ 0
  simp only [V3.sub, V3.add, V3.smul, V3.dot, V3.abs, L]; num_real
  have : (o.x + δ.x - (o.x + d.x * ((|d.x| * e.x + |d.y| * e.y + |d.z| * e.z) / (d.x * d.x + d.y * d.y + d.z * d.z)))) * d.x
       + (o.y + δ.y - (o.y + d.y * ((|d.x| * e.x + |d.y| * e.y + |d.z| * e.z) / (d.x * d.x + d.y * d.y + d.z * d.z)))) * d.y
       + (o.z + δ.z - (o.z + d.z * ((|d.x| * e.x + |d.y| * e.y + |d.z| * e.z) / (d.x * d.x + d.y * d.y + d.z * d.z)))) * d.z
       = δ.x * d.x + δ.y * d.y + δ.z * d.z - (|d.x| * e.x + |d.y| * e.y + |d.z| * e.z) := by
    have hne' : d.x * d.x + d.y * d.y + d.z * d.z ≠ 0 := ne_of_gt hd'
    generalize |d.x| * e.x + |d.y| * e.y + |d.z| * e.z = N
    have hS : d.x * (N / (d.x * d.x + d.y * d.y + d.z * d.z)) * d.x + d.y * (N / (d.x * d.x + d.y * d.y + d.z * d.z)) * d.y
        + d.z * (N / (d.x * d.x + d.y * d.y + d.z * d.z)) * d.z = N := by
      have : d.x * (N / (d.x * d.x + d.y * d.y + d.z * d.z)) * d.x + d.y * (N / (d.x * d.x + d.y * d.y + d.z * d.z)) * d.y
        + d.z * (N / (d.x * d.x + d.y * d.y + d.z * d.z)) * d.z
        = (N / (d.x * d.x + d.y * d.y + d.z * d.z)) * (d.x * d.x + d.y * d.y + d.z * d.z) := by ring
      rw [this, div_mul_cancel₀ _ hne']
    linear_combination (-1 : ℝ) * hS
  rw [this]
  have t1 : δ.x * d.x ≤ |d.x| * e.x := by
    calc δ.x * d.x ≤ |δ.x * d.x| := le_abs_self _
      _ = |δ.x| * |d.x| := abs_mul _ _
      _ ≤ e.x * |d.x| := mul_le_mul_of_nonneg_right bx (abs_nonneg _)
      _ = |d.x| * e.x := mul_comm _ _
  have t2 : δ.y * d.y ≤ |d.y| * e.y := by
    calc δ.y * d.y ≤ |δ.y * d.y| := le_abs_self _
      _ = |δ.y| * |d.y| := abs_mul _ _
      _ ≤ e.y * |d.y| := mul_le_mul_of_nonneg_right by' (abs_nonneg _)
      _ = |d.y| * e.y := mul_comm _ _
  have t3 : δ.z * d.z ≤ |d.z| * e.z := by
    calc δ.z * d.z ≤ |δ.z * d.z| := le_abs_self _
      _ = |δ.z| * |d.z| := abs_mul _ _
      _ ≤ e.z * |d.z| := mul_le_mul_of_nonneg_right bz (abs_nonneg _)
      _ = |d.z| * e.z := mul_comm _ _
  linarith

end G3d.C16
