import G3d.Props.C15
import G3d.Props.C02
import G3d.Model.Sphere
import G3d.Model.Cylinder
import G3d.Model.TriRay
/-!
# C15 (primitives) — local and world bounds contain the primitive (exact semantics)

* `tri_bounds_contain` — every point `a + u (b − a) + v (c − a)` of a triangle (`u, v ≥ 0`, `u + v ≤ 1`) lies in its bounds;
  `tri_hit_in_bounds` — in particular every hit `intersect_triangle` reports (by C02's `mt_sound`).
* `sphere_bounds_contain` — every point of the sphere of radius `r ≥ 0` with `z` between `zmin` and `zmax` lies in its bounds;
  `cylinder_bounds_contain` likewise.
* `world_bounds_contain` — for a primitive carried by a transform, the world bounds (the box of the eight transformed corners)
  contain the image of every point of the local bounds (C15 `transformBBox_contains_image`).
-/
namespace G3d.C15
open G3d Num

noncomputable section

theorem contains_new {a b p : V3 ℝ}
    (hx : min a.x b.x ≤ p.x ∧ p.x ≤ max a.x b.x) (hy : min a.y b.y ≤ p.y ∧ p.y ≤ max a.y b.y)
    (hz : min a.z b.z ≤ p.z ∧ p.z ≤ max a.z b.z) : Contains (BBox.new a b) p := by
  simp only [Contains, BBox.new, swapGt_fst, swapGt_snd]
  exact ⟨hx.1, hx.2, hy.1, hy.2, hz.1, hz.2⟩

/-- a convex combination of three numbers lies between their minimum and maximum -/
theorem convex3 (a b c u v : ℝ) (hu : 0 ≤ u) (hv : 0 ≤ v) (huv : u + v ≤ 1) :
    min (min a b) c ≤ a + (b - a) * u + (c - a) * v ∧ a + (b - a) * u + (c - a) * v ≤ max (max a b) c := by
  have hw : 0 ≤ 1 - u - v := by linarith
  have e : a + (b - a) * u + (c - a) * v = (1 - u - v) * a + u * b + v * c := by ring
  have m1 : min (min a b) c ≤ a := le_trans (min_le_left _ _) (min_le_left _ _)
  have m2 : min (min a b) c ≤ b := le_trans (min_le_left _ _) (min_le_right _ _)
  have m3 : min (min a b) c ≤ c := min_le_right _ _
  have M1 : a ≤ max (max a b) c := le_trans (le_max_left _ _) (le_max_left _ _)
  have M2 : b ≤ max (max a b) c := le_trans (le_max_right _ _) (le_max_left _ _)
  have M3 : c ≤ max (max a b) c := le_max_right _ _
  rw [e]
  constructor
  · nlinarith [mul_le_mul_of_nonneg_left m1 hw, mul_le_mul_of_nonneg_left m2 hu, mul_le_mul_of_nonneg_left m3 hv]
  · nlinarith [mul_le_mul_of_nonneg_left M1 hw, mul_le_mul_of_nonneg_left M2 hu, mul_le_mul_of_nonneg_left M3 hv]

/-- **every point of a triangle lies in its bounds** -/
theorem tri_bounds_contain (t : TriV ℝ) (u v : ℝ) (hu : 0 ≤ u) (hv : 0 ≤ v) (huv : u + v ≤ 1) :
    Contains t.bounds (t.a + (t.b - t.a).smul u + (t.c - t.a).smul v) := by
  obtain ⟨hx1, hx2⟩ := convex3 t.a.x t.b.x t.c.x u v hu hv huv
  obtain ⟨hy1, hy2⟩ := convex3 t.a.y t.b.y t.c.y u v hu hv huv
  obtain ⟨hz1, hz2⟩ := convex3 t.a.z t.b.z t.c.z u v hu hv huv
  simp only [Contains, TriV.bounds, BBox.fromPoint, BBox.fromUnionPoint, swapGt_fst, swapGt_snd]
  vec_real
  exact ⟨hx1, hx2, hy1, hy2, hz1, hz2⟩

/-- **every hit reported by `intersect_triangle` lies in the triangle's bounds** -/
theorem tri_hit_in_bounds (t : TriV ℝ) (ray : Ray ℝ) (p : V3 ℝ) (u v : ℝ)
    (h : intersectTriangle ray t.a t.b t.c = some (p, u, v)) : Contains t.bounds p := by
  obtain ⟨_, _, _, hp, hu, hv, huv⟩ := C02.mt_sound h
  rw [hp]
  exact tri_bounds_contain t u v hu hv huv

/-- **every point of a (clipped) sphere lies in its bounds** -/
theorem sphere_bounds_contain (s : Sphere ℝ) (p : V3 ℝ) (hr : 0 ≤ s.radius)
    (hon : p.lengthSquared = s.radius * s.radius) (hz : min s.zmin s.zmax ≤ p.z ∧ p.z ≤ max s.zmin s.zmax) :
    Contains s.bounds p := by
  have hx : p.x * p.x ≤ s.radius * s.radius := by
    rw [← hon]; unfold V3.lengthSquared; num_real; nlinarith [mul_self_nonneg p.y, mul_self_nonneg p.z]
  have hy : p.y * p.y ≤ s.radius * s.radius := by
    rw [← hon]; unfold V3.lengthSquared; num_real; nlinarith [mul_self_nonneg p.x, mul_self_nonneg p.z]
  have ax := abs_le_of_sq_le_sq' (by nlinarith : p.x ^ 2 ≤ s.radius ^ 2) hr
  have ay := abs_le_of_sq_le_sq' (by nlinarith : p.y ^ 2 ≤ s.radius ^ 2) hr
  unfold Sphere.bounds
  apply contains_new
  · simp only []; num_real
    rw [min_eq_left (by linarith), max_eq_right (by linarith)]; exact ⟨ax.1, ax.2⟩
  · simp only []; num_real
    rw [min_eq_left (by linarith), max_eq_right (by linarith)]; exact ⟨ay.1, ay.2⟩
  · exact hz

/-- **every point of a (clipped) cylinder lies in its bounds** -/
theorem cylinder_bounds_contain (s : Cylinder ℝ) (p : V3 ℝ) (hr : 0 ≤ s.radius)
    (hon : p.x * p.x + p.y * p.y = s.radius * s.radius) (hz : min s.zmin s.zmax ≤ p.z ∧ p.z ≤ max s.zmin s.zmax) :
    Contains s.bounds p := by
  have hx : p.x * p.x ≤ s.radius * s.radius := by nlinarith [mul_self_nonneg p.y]
  have hy : p.y * p.y ≤ s.radius * s.radius := by nlinarith [mul_self_nonneg p.x]
  have ax := abs_le_of_sq_le_sq' (by nlinarith : p.x ^ 2 ≤ s.radius ^ 2) hr
  have ay := abs_le_of_sq_le_sq' (by nlinarith : p.y ^ 2 ≤ s.radius ^ 2) hr
  unfold Cylinder.bounds
  apply contains_new
  · simp only []; num_real
    rw [min_eq_left (by linarith), max_eq_right (by linarith)]; exact ⟨ax.1, ax.2⟩
  · simp only []; num_real
    rw [min_eq_left (by linarith), max_eq_right (by linarith)]; exact ⟨ay.1, ay.2⟩
  · exact hz

/-- **world bounds contain the image of every point of the local bounds** -/
theorem world_bounds_contain (tr : Option (Transform ℝ)) (b : BBox ℝ) (p : V3 ℝ) (h : Contains b p)
    (haff : ∀ t, tr = some t → M4.Affine t.m) :
    Contains (worldBoundsOf tr b) (match tr with | some t => t.transformPt p | none => p) := by
  cases tr with
  | none => exact h
  | some t => exact transformBBox_contains_image (haff t rfl) h

end
end G3d.C15
