import G3d.Props.C02
import G3d.Props.C17
import G3d.Proofs.ApproxReal
import G3d.Proofs.Quadric
/-!
# C02 (spheres and cylinders) — a reported hit is on the quadric, on the ray at `t > 0`, and inside the clips

Exact semantics with exact inputs (zero input error boxes), where the interval solver collapses to the quadratic formula
(`Proofs/ApproxReal.lean`).  `sphere_sound` / `cyl_sound`: every `Some((phit, phi))` of `basic_intersection` comes from a
parameter `t > 0` with `|o + t d|² = r²` (resp. `x² + y² = r²`), the returned pair is what the re-projection closure
computes from that `t`, and it passed the clipping test.  `reproject_id`: on the exact quadric the re-projection is the
identity (away from the documented pole nudge), so the hit point **is** `o + t d`.
-/
namespace G3d.C02
open G3d Num C06 C17

noncomputable section

theorem zero_vec_real : (⟨0, 0, 0⟩ : V3 ℝ) = ⟨(0:ℝ), (0:ℝ), (0:ℝ)⟩ := by num_real

/-- the coefficients of `|o + t d|² = r²` -/
def sphA (ray : Ray ℝ) : ℝ := ray.direction.x * ray.direction.x + ray.direction.y * ray.direction.y + ray.direction.z * ray.direction.z
def sphB (ray : Ray ℝ) : ℝ := (ray.origin.x * ray.direction.x + ray.origin.y * ray.direction.y + ray.origin.z * ray.direction.z) * 2
def sphC (r : ℝ) (ray : Ray ℝ) : ℝ := ray.origin.x * ray.origin.x + ray.origin.y * ray.origin.y + ray.origin.z * ray.origin.z - r * r

theorem sphere_quad_point (s : Sphere ℝ) (ray : Ray ℝ) :
    s.quadCoeffs ray ⟨0, 0, 0⟩ ⟨0, 0, 0⟩ = (pt (sphA ray), pt (sphB ray), pt (sphC s.radius ray)) := by
  unfold Sphere.quadCoeffs
  num_real
  simp only [fve_zero, pt_mul, pt_add, pt_mulF, pt_subF, sphA, sphB, sphC]

/-- a positive root of the point solver is a genuine root -/
theorem qroot_pos_is_root {a b c t : ℝ} (ha : a ≠ 0) (hd : ¬ (b * b - a * c * 4 < 0))
    (ht : t = (qroot a b c).1 ∨ t = (qroot a b c).2) (hpos : 0 < t) : a * t ^ 2 + b * t + c = 0 := by
  have hΔ : 0 ≤ b * b - a * c * 4 := not_lt.1 hd
  have hss := Real.mul_self_sqrt hΔ
  simp only [qroot] at ht
  by_cases hb : b < 0
  · simp only [hb, if_true] at ht
    have hσ : (-Real.sqrt (b * b - a * c * 4)) * (-Real.sqrt (b * b - a * c * 4)) = b * b - a * c * 4 := by nlinarith
    have hq : -(b + -Real.sqrt (b * b - a * c * 4)) * (1 / 2) ≠ 0 := by
      intro h0
      have e : -(b - Real.sqrt (b * b - a * c * 4)) * (1 / 2) = 0 := by rw [← h0]; ring
      rcases ht with h | h <;> rw [h, e] at hpos <;> simp at hpos
    obtain ⟨r1, r2⟩ := roots_are_roots ha hσ hq
    have e : -(b - Real.sqrt (b * b - a * c * 4)) * (1 / 2) = -(b + -Real.sqrt (b * b - a * c * 4)) * (1 / 2) := by ring
    rcases ht with h | h
    · rw [h, e]; exact r1
    · rw [h, e]; exact r2
  · simp only [hb, if_false] at ht
    have hq : -(b + Real.sqrt (b * b - a * c * 4)) * (1 / 2) ≠ 0 := by
      intro h0
      rcases ht with h | h <;> rw [h, h0] at hpos <;> simp at hpos
    obtain ⟨r1, r2⟩ := roots_are_roots ha hss hq
    rcases ht with h | h
    · rw [h]; exact r1
    · rw [h]; exact r2

theorem sphere_root_on_sphere {r t : ℝ} {ray : Ray ℝ}
    (h : sphA ray * t ^ 2 + sphB ray * t + sphC r ray = 0) : (ray.project t).lengthSquared = r * r := by
  obtain ⟨⟨ox, oy, oz⟩, ⟨dx, dy, dz⟩⟩ := ray
  simp only [sphA, sphB, sphC] at h
  vec_real
  linear_combination h

/-- whatever the selection returns comes from one of the two roots, at a positive parameter, and is unclipped -/
theorem select_sound {calcF : ℝ → V3 ℝ × ℝ} {clip : V3 ℝ → ℝ → Bool} {t0 t1 : ℝ} {r : V3 ℝ × ℝ}
    (h : selectSpec calcF clip t0 t1 = some r) :
    ∃ t : ℝ, (t = t0 ∨ t = t1) ∧ 0 < t ∧ r = calcF t ∧ clip r.1 r.2 = false := by
  unfold selectSpec at h
  split_ifs at h with c1 c2 c3
  · simp only [Option.some.injEq] at h
    exact ⟨t0, Or.inl rfl, c2.1, h.symm, by rw [← h]; exact c2.2⟩
  · simp only [Option.some.injEq] at h
    exact ⟨t1, Or.inr rfl, not_le.1 c1, h.symm, by rw [← h]; exact c3⟩

theorem sortedRoots_mem {a b c t0 t1 : ℝ} (h : sortedRoots a b c = some (t0, t1)) :
    ¬ (b * b - a * c * 4 < 0) ∧ (t0 = (qroot a b c).1 ∨ t0 = (qroot a b c).2) ∧
      (t1 = (qroot a b c).1 ∨ t1 = (qroot a b c).2) ∧ t0 ≤ t1 := by
  unfold sortedRoots at h
  split_ifs at h with c1 c2
  · simp only [Option.some.injEq, Prod.mk.injEq] at h
    exact ⟨c1, Or.inr h.1.symm, Or.inl h.2.symm, by rw [← h.1, ← h.2]; exact le_of_lt c2⟩
  · simp only [Option.some.injEq, Prod.mk.injEq] at h
    exact ⟨c1, Or.inl h.1.symm, Or.inr h.2.symm, by rw [← h.1, ← h.2]; exact not_lt.1 c2⟩

/-- **sphere: a reported hit comes from a positive root of `|o + t d|² = r²`, is what the re-projection computes from it,
    and passed the clipping test** -/
theorem sphere_sound {s : Sphere ℝ} {ray : Ray ℝ} {phit : V3 ℝ} {phi : ℝ}
    (hA : sphA ray ≠ 0)
    (h : s.approxBasicIntersection ray ⟨0, 0, 0⟩ ⟨0, 0, 0⟩ = some (phit, phi)) :
    ∃ t : ℝ, 0 < t ∧ (ray.project t).lengthSquared = s.radius * s.radius ∧
      (phit, phi) = s.calcPhitAndPhi ray (pt t) ∧ s.clipped phit phi = false := by
  rw [sphere_basic_exact s ray _ _ _ (sphere_quad_point s ray)] at h
  split at h
  · exact absurd h (by simp)
  · rename_i t0 t1 hs
    obtain ⟨hd, m0, m1, _⟩ := sortedRoots_mem hs
    obtain ⟨t, ht, tpos, hr, hc⟩ := select_sound h
    refine ⟨t, tpos, ?_, hr, hc⟩
    rcases ht with rfl | rfl
    · exact sphere_root_on_sphere (qroot_pos_is_root hA hd m0 tpos)
    · exact sphere_root_on_sphere (qroot_pos_is_root hA hd m1 tpos)

/-- what "passed the clipping test" means for a sphere -/
theorem sphere_clip_spec (s : Sphere ℝ) (p : V3 ℝ) (phi : ℝ) :
    s.clipped p phi = false ↔
      ((-s.radius < s.zmin → s.zmin ≤ p.z) ∧ (s.zmax < s.radius → p.z ≤ s.zmax) ∧ phi ≤ s.phiMax) := by
  unfold Sphere.clipped
  bool_real
  num_real
  constructor
  · rintro ⟨⟨h1, h2⟩, h3⟩; exact ⟨h1, h2, h3⟩
  · rintro ⟨h1, h2, h3⟩; exact ⟨⟨h1, h2⟩, h3⟩

/-- on the exact sphere the re-projection is the identity (outside the documented nudge next to the polar axis) -/
theorem sphere_reproject_id {s : Sphere ℝ} {ray : Ray ℝ} {t : ℝ} (hr : 0 < s.radius)
    (hs : (ray.project t).lengthSquared = s.radius * s.radius)
    (hpole : ¬ (|(ray.project t).x| < 1e-5 * s.radius ∧ |(ray.project t).y| < 1e-5 * s.radius)) :
    (s.calcPhitAndPhi ray (pt t)).1 = ray.project t := by
  unfold Sphere.calcPhitAndPhi
  simp only [pt_midpoint]
  have hlen : (ray.project t).length = s.radius := by
    simp only [V3.length, hs]; num_real
    rw [Real.sqrt_mul_self (le_of_lt hr)]
  generalize ray.project t = p at hs hpole hlen ⊢
  obtain ⟨px, py, pz⟩ := p
  simp only [hlen]
  num_real
  rw [div_self (ne_of_gt hr)]
  simp only [mul_one]
  have hc : ((|px| <. (1e-5 : ℝ) * s.radius && |py| <. (1e-5 : ℝ) * s.radius)) = false := by
    bool_real
    intro h1
    by_contra h2
    exact hpole ⟨h1, not_le.1 h2⟩
  simp only [hc, Bool.false_eq_true, if_false]

/-! ## cylinders -/

def cylA (ray : Ray ℝ) : ℝ := ray.direction.x * ray.direction.x + ray.direction.y * ray.direction.y
def cylB (ray : Ray ℝ) : ℝ := (ray.direction.x * ray.origin.x + ray.direction.y * ray.origin.y) * 2
def cylC (r : ℝ) (ray : Ray ℝ) : ℝ := ray.origin.x * ray.origin.x + ray.origin.y * ray.origin.y - r * r

theorem cyl_quad_point (s : Cylinder ℝ) (ray : Ray ℝ) :
    s.quadCoeffs ray ⟨0, 0, 0⟩ ⟨0, 0, 0⟩ = (pt (cylA ray), pt (cylB ray), pt (cylC s.radius ray)) := by
  unfold Cylinder.quadCoeffs
  num_real
  simp only [fve_zero, pt_mul, pt_add, pt_mulF, pt_subF, cylA, cylB, cylC]

theorem cyl_root_on_cyl {r t : ℝ} {ray : Ray ℝ}
    (h : cylA ray * t ^ 2 + cylB ray * t + cylC r ray = 0) :
    (ray.project t).x * (ray.project t).x + (ray.project t).y * (ray.project t).y = r * r := by
  obtain ⟨⟨ox, oy, oz⟩, ⟨dx, dy, dz⟩⟩ := ray
  simp only [cylA, cylB, cylC] at h
  vec_real
  linear_combination h

/-- **cylinder: a reported hit comes from a positive root of `x² + y² = r²` along the ray, is what the re-projection
    computes from it, and passed the clipping test (`zmin ≤ z ≤ zmax`, `phi ≤ phi_max`)** -/
theorem cyl_sound {s : Cylinder ℝ} {ray : Ray ℝ} {phit : V3 ℝ} {phi : ℝ}
    (hA : cylA ray ≠ 0)
    (h : s.basicIntersection ray ⟨0, 0, 0⟩ ⟨0, 0, 0⟩ = some (phit, phi)) :
    ∃ t : ℝ, 0 < t ∧
      (ray.project t).x * (ray.project t).x + (ray.project t).y * (ray.project t).y = s.radius * s.radius ∧
      (phit, phi) = s.calcPhitAndPhi ray (pt t) ∧ s.clipped phit phi = false := by
  rw [cyl_basic_exact s ray _ _ _ (cyl_quad_point s ray)] at h
  split at h
  · exact absurd h (by simp)
  · rename_i t0 t1 hs
    obtain ⟨hd, m0, m1, _⟩ := sortedRoots_mem hs
    obtain ⟨t, ht, tpos, hr, hc⟩ := select_sound h
    refine ⟨t, tpos, ?_, hr, hc⟩
    rcases ht with rfl | rfl
    · exact cyl_root_on_cyl (qroot_pos_is_root hA hd m0 tpos)
    · exact cyl_root_on_cyl (qroot_pos_is_root hA hd m1 tpos)

theorem cyl_clip_spec (s : Cylinder ℝ) (p : V3 ℝ) (phi : ℝ) :
    s.clipped p phi = false ↔ (s.zmin ≤ p.z ∧ p.z ≤ s.zmax ∧ phi ≤ s.phiMax) := by
  unfold Cylinder.clipped
  bool_real
  constructor
  · rintro ⟨⟨h1, h2⟩, h3⟩; exact ⟨h1, h2, h3⟩
  · rintro ⟨h1, h2, h3⟩; exact ⟨⟨h1, h2⟩, h3⟩

/-! ## world space: the wrapper `simple_intersect` -/

/-- **world soundness**: if the local routine only reports points on the local ray at positive parameters, the world
    routine only reports points on the world ray at positive parameters, and the world point is the image of the local
    hit (so it lies on the transformed surface). -/
theorem world_sound {t : Transform ℝ} (ht : Inv t) (loc : Ray ℝ → V3 ℝ → V3 ℝ → Option (V3 ℝ)) (ray : Ray ℝ) {P : V3 ℝ}
    (hloc : ∀ (r : Ray ℝ) (oe de p : V3 ℝ), loc r oe de = some p → ∃ τ : ℝ, 0 < τ ∧ p = r.project τ)
    (h : worldSimpleIntersect (some t) loc ray = some P) :
    ∃ (p : V3 ℝ) (T : ℝ), 0 < T ∧ P = t.transformPt p ∧ P = ray.project T ∧
      ∃ oe de, loc (t.invTransformRay ray).1 oe de = some p := by
  unfold worldSimpleIntersect localRaySimple at h
  simp only [] at h
  split at h
  · exact absurd h (by simp)
  · rename_i p hp
    simp only [Option.some.injEq] at h
    obtain ⟨τ, τpos, hτ⟩ := hloc _ _ _ _ hp
    obtain ⟨hdir, dt, dtpos, horig⟩ := ray_on_line t.inv ray
    refine ⟨p, dt + τ, by linarith, h.symm, ?_, _, _, hp⟩
    rw [← h, hτ]
    -- T (o' + τ d') with o' = T⁻¹ o + dt T⁻¹ d and d' = T⁻¹ d
    have e1 : (t.invTransformRay ray).1.origin = t.inv.mulPoint ray.origin + (t.inv.mulVec ray.direction).smul dt := horig
    have e2 : (t.invTransformRay ray).1.direction = t.inv.mulVec ray.direction := hdir
    simp only [Ray.project, e1, e2]
    have lin : ∀ (a v : V3 ℝ) (k : ℝ), t.m.mulPoint (a + v.smul k) = t.m.mulPoint a + (t.m.mulVec v).smul k := by
      intro a v k
      rw [C15.mulPoint_affine ht.2.2.1, C15.mulPoint_affine ht.2.2.1]
      vec_real; simp only [M4.mulVec]; num_real
      refine ⟨?_, ?_, ?_⟩ <;> ring
    show t.m.mulPoint _ = _
    have rp : t.m.mulPoint (t.inv.mulPoint ray.origin) = ray.origin := roundtrip_pt' ht ray.origin
    have rv : t.m.mulVec (t.inv.mulVec ray.direction) = ray.direction := roundtrip_vec' ht ray.direction
    have assoc : t.inv.mulPoint ray.origin + (t.inv.mulVec ray.direction).smul dt + (t.inv.mulVec ray.direction).smul τ
        = t.inv.mulPoint ray.origin + (t.inv.mulVec ray.direction).smul (dt + τ) := by
      vec_real; refine ⟨?_, ?_, ?_⟩ <;> ring
    rw [assoc, lin, rp, rv]

end
end G3d.C02
