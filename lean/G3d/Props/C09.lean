import G3d.Props.C04
import G3d.Props.C12
import G3d.Props.C18
/-!
# C09 — triangulation is total (what is proved)

Generic in the scalar type:
* `excessive_iterations` — the ear-clipping loop of `from_polygon` gives up with an `Err` at its 1001st iteration, whatever the
  outline: **ear clipping cannot run away** (each iteration is a bounded scan of the outline).
* `sanitize_noPanic` — the `sanitize()` call inside that loop never panics (by C04: no `push`/`close` ever panics; since the
  repair `9012568` a refused push is an `Err`).
* `getClosedLoop_no_holes_ok` — merging the holes of a polygon without holes cannot fail.
* `markAsNeighbours_shared` — `mark_as_neighbours` reaches its `panic!("… don't share a segment")` only if the second triangle
  does not have the first one's edge; `mark_neighbourhouds` calls it only after checking exactly that
  (`markEdgeLoop_no_shared_segment_panic`), so that panic is unreachable from `from_polygon`.
* `refine_ok_*` (C18) — when `refine` returns `Ok` the mesh is at a fixpoint with every slot live.
Not proved: termination of `refine` (Rust recursion; the model carries explicit fuel and the harness a watchdog), and the
absence of panics in the remaining callees of the ear loop (`is_diagonal`'s `test_point(..).unwrap()`). These are decided
on every run by the bit-exact differential run plus the C09 oracle (panic / runaway / well-conditioned-must-succeed).
-/
namespace G3d.C09
open G3d Num Mesh C04
set_option linter.unusedSectionVars false
variable {α : Type} [Num α]

/-- **the ear-clipping loop stops after 1000 iterations** -/
theorem excessive_iterations (poly : Polygon α) (fuel : Nat) (theLoop : Loop α) (t : Mesh α) (anchor count : Nat)
    (h : 1000 ≤ count) :
    fromPolygonLoop poly (fuel + 1) theLoop t anchor count
      = .err "triangulation3d.rs:from_polygon:excessive-iterations" := by
  unfold fromPolygonLoop
  have : count + 1 > 1000 := by omega
  simp [this]

theorem sanitizePush_noPanic : ∀ (vs : List (V3 α)) (new : Loop α), NoPanic (Loop.sanitizePush vs new) := by
  intro vs
  induction vs with
  | nil => intro new; exact noPanic_ok _
  | cons v rest ih =>
    intro new
    unfold Loop.sanitizePush
    have hp := push_noPanic new v
    cases hpv : new.push v with
    | mk new' r =>
      rw [hpv] at hp
      cases r with
      | ok u => exact ih new'
      | err e => exact noPanic_err _
      | panic q => exact absurd rfl (hp q)

/-- **`sanitize` never panics** -/
theorem sanitize_noPanic (l : Loop α) : NoPanic l.sanitize := by
  unfold Loop.sanitize
  have h1 := sanitizePush_noPanic l.vertices Loop.new
  cases hs : Loop.sanitizePush l.vertices Loop.new with
  | err e => exact noPanic_err _
  | panic q => exact absurd hs (h1 q)
  | ok new =>
    simp only [Bind.bind, Res.bind]
    split
    · have hc := close_noPanic new
      cases hcl : new.close with
      | mk new' r =>
        rw [hcl] at hc
        cases r with
        | ok u => exact noPanic_ok _
        | err e => exact noPanic_err _
        | panic q => exact absurd rfl (hc q)
    · exact noPanic_ok _

/-- merging the holes of a polygon without holes cannot fail -/
theorem getClosedLoop_no_holes_ok (pg : Polygon α) (h : pg.inner = []) : ∃ l, pg.tryGetClosedLoop = .ok l :=
  ⟨_, (C12.getClosedLoop_no_holes pg h).1⟩

theorem fromI_asI (e : Edge) : Edge.fromI e.asI = .ok e := by cases e <;> rfl

/-- inversion of a sequence that panicked -/
theorem bind_panic_inv {β γ : Type} (x : MeshM α β) (f : β → MeshM α γ) (m m' : Mesh α) (s : String)
    (h : x.bind f m = (m', .panic s)) :
    x m = (m', .panic s) ∨ ∃ b m1, x m = (m1, .ok b) ∧ f b m1 = (m', .panic s) := by
  unfold MeshM.bind at h
  cases hx : x m with
  | mk m1 r =>
    rw [hx] at h
    cases r with
    | ok b => exact Or.inr ⟨b, m1, rfl, h⟩
    | err e => simp at h
    | panic q => left; simpa using h

theorem tgetM_eq (i : Nat) (site : String) (m : Mesh α) (t : TriPiece α) (h : m.triangles[i]? = some t) :
    tgetM i site m = (m, .ok t) := by simp [tgetM, tget, h]

/-- `mark_as_neighbours` cannot hit its `panic!` when the second triangle has the first one's edge -/
theorem markAsNeighbours_shared (i1 i2 : Nat) (e : Edge) (m : Mesh α) (t1 t2 : TriPiece α) (seg : Segment α) (k : Nat)
    (h1 : m.triangles[i1]? = some t1) (h2 : m.triangles[i2]? = some t2)
    (hseg : t1.triangle.segment e.asI = .ok seg) (hk : t2.triangle.getEdgeIndexFromSegment seg = some k) :
    ∀ m', markAsNeighbours i1 e i2 m ≠ (m', .panic "triangulation3d.rs:mark_as_neighbours:no-shared-segment") := by
  intro m' h
  unfold markAsNeighbours at h
  by_cases hi : (i1 == i2) = true
  · simp [hi, MeshM.err] at h
  · rw [if_neg hi] at h
    simp only [Bind.bind] at h
    -- t1
    rcases bind_panic_inv _ _ _ _ _ h with hx | ⟨b, m1, hx, h3⟩
    · rw [tgetM_eq _ _ _ _ h1] at hx; simp at hx
    rw [tgetM_eq _ _ _ _ h1] at hx
    simp only [Prod.mk.injEq, Res.ok.injEq] at hx
    obtain ⟨rfl, rfl⟩ := hx
    clear h
    by_cases hv1 : (!t1.valid) = true
    · rw [if_pos hv1] at h3; simp [MeshM.err] at h3
    rw [if_neg hv1] at h3
    -- seg1
    rcases bind_panic_inv _ _ _ _ _ h3 with hx | ⟨b, m1, hx, h4⟩
    · simp [MeshM.ofRes, hseg] at hx
    simp only [MeshM.ofRes, hseg, Prod.mk.injEq, Res.ok.injEq] at hx
    obtain ⟨rfl, rfl⟩ := hx
    clear h3
    -- t2
    rcases bind_panic_inv _ _ _ _ _ h4 with hx | ⟨b, m1, hx, h5⟩
    · rw [tgetM_eq _ _ _ _ h2] at hx; simp at hx
    rw [tgetM_eq _ _ _ _ h2] at hx
    simp only [Prod.mk.injEq, Res.ok.injEq] at hx
    obtain ⟨rfl, rfl⟩ := hx
    clear h4
    by_cases hv2 : (!t2.valid) = true
    · rw [if_pos hv2] at h5; simp [MeshM.err] at h5
    rw [if_neg hv2] at h5
    -- edge2 lookup: this is where the `panic!` lives, and `hk` rules it out
    rcases bind_panic_inv _ _ _ _ _ h5 with hx | ⟨b, m1, hx, h6⟩
    · simp [MeshM.ofRes, hk] at hx
    simp only [MeshM.ofRes, hk, Prod.mk.injEq, Res.ok.injEq] at hx
    obtain ⟨rfl, rfl⟩ := hx
    clear h5
    -- every later panic has another site name
    rcases bind_panic_inv _ _ _ _ _ h6 with hx | ⟨edge2, m1, hx, h7⟩
    · simp only [MeshM.ofRes, Prod.mk.injEq] at hx
      have hx2 := hx.2
      unfold Edge.fromI at hx2
      split at hx2 <;> simp at hx2
    clear h6
    rcases bind_panic_inv _ _ _ _ _ h7 with hx | ⟨u, m2, hx, h8⟩
    · simp only [tmodifyM] at hx
      split at hx
      · simp at hx
      · simp only [Prod.mk.injEq, Res.panic.injEq] at hx
        exact absurd hx.2 (by decide)
    · simp only [tmodifyM] at h8
      split at h8
      · simp at h8
      · simp only [Prod.mk.injEq, Res.panic.injEq] at h8
        exact absurd h8.2 (by decide)

theorem asI_of_fromI (j : Nat) (e : Edge) (h : Edge.fromI j = .ok e) : e.asI = j := by
  unfold Edge.fromI at h
  split at h <;> first | (cases h; rfl) | cases h

theorem tgetM_panic_site (i : Nat) (site : String) (m m' : Mesh α) (s : String)
    (h : tgetM i site m = (m', .panic s)) : s = site := by
  simp only [tgetM, tget] at h
  cases ht : m.triangles[i]? with
  | none => rw [ht] at h; simp at h; exact h.2.symm
  | some t => rw [ht] at h; simp at h

theorem tgetM_ok (i : Nat) (site : String) (m m1 : Mesh α) (t : TriPiece α)
    (h : tgetM i site m = (m1, .ok t)) : m1 = m ∧ m.triangles[i]? = some t := C18.tgetM_ok_inv i site m m1 t h

/-- **`mark_neighbourhouds` never reaches the `panic!("… don't share a segment")`**: it marks two triangles as neighbours
    only after finding the first one's edge in the second -/
theorem markEdgeLoop_no_shared_segment_panic (thisI otherI : Nat) :
    ∀ (fuel edgeI : Nat) (m m' : Mesh α),
      markEdgeLoop thisI otherI fuel edgeI m ≠ (m', .panic "triangulation3d.rs:mark_as_neighbours:no-shared-segment") := by
  intro fuel
  induction fuel with
  | zero => intro edgeI m m'; simp [markEdgeLoop, MeshM.pure]
  | succ f ih =>
    intro edgeI m m' h
    unfold markEdgeLoop at h
    simp only [Bind.bind] at h
    rcases bind_panic_inv _ _ _ _ _ h with hx | ⟨t, m1, hx, h2⟩
    · have := tgetM_panic_site _ _ _ _ _ hx
      exact absurd this (by decide)
    obtain ⟨rfl, ht⟩ := tgetM_ok _ _ _ _ _ hx
    clear h
    rcases bind_panic_inv _ _ _ _ _ h2 with hx | ⟨edge, m2, hx, h3⟩
    · simp only [MeshM.ofRes, Prod.mk.injEq] at hx
      have hx2 := hx.2
      unfold Triangle.segment at hx2
      split at hx2 <;> simp at hx2
    simp only [MeshM.ofRes, Prod.mk.injEq] at hx
    obtain ⟨rfl, hseg⟩ := hx
    clear h2
    rcases bind_panic_inv _ _ _ _ _ h3 with hx | ⟨o, m3, hx, h4⟩
    · have := tgetM_panic_site _ _ _ _ _ hx
      exact absurd this (by decide)
    obtain ⟨rfl, ho⟩ := tgetM_ok _ _ _ _ _ hx
    clear h3
    split at h4
    · rename_i hsome
      rcases bind_panic_inv _ _ _ _ _ h4 with hx | ⟨e, m4, hx, h5⟩
      · simp only [MeshM.ofRes, Prod.mk.injEq] at hx
        have hx2 := hx.2
        unfold Edge.fromI at hx2
        split at hx2 <;> simp at hx2
      simp only [MeshM.ofRes, Prod.mk.injEq] at hx
      obtain ⟨rfl, hfe⟩ := hx
      have hasI := asI_of_fromI _ _ hfe
      obtain ⟨k, hk⟩ := Option.isSome_iff_exists.mp hsome
      exact markAsNeighbours_shared thisI otherI e _ t o edge k ht ho (by rw [hasI]; exact hseg) hk m' h5
    · exact ih _ _ _ h4

/-- **the fuel of the model's ear-clipping loop is immaterial**: once `count + fuel ≥ 1001` more fuel changes nothing, because
    the loop's own `count > 1000` exit fires before the fuel can run out (so the model's `1001` is "enough", and the
    model's out-of-fuel outcome is never what decides a result) -/
theorem fromPolygonLoop_fuel_irrelevant (poly : Polygon α) :
    ∀ (f : Nat) (theLoop : Loop α) (t : Mesh α) (anchor count : Nat), 1000 ≤ count + f →
      fromPolygonLoop poly (f + 1) theLoop t anchor count = fromPolygonLoop poly (f + 2) theLoop t anchor count := by
  intro f
  induction f with
  | zero =>
    intro theLoop t anchor count h
    rw [excessive_iterations poly 0 theLoop t anchor count (by omega),
      excessive_iterations poly 1 theLoop t anchor count (by omega)]
  | succ g ih =>
    intro theLoop t anchor count h
    by_cases hc : 1000 ≤ count
    · rw [excessive_iterations poly (g + 1) theLoop t anchor count hc,
        excessive_iterations poly (g + 2) theLoop t anchor count hc]
    · have ih' : ∀ (L : Loop α) (t' : Mesh α) (a' : Nat),
          fromPolygonLoop poly (g + 1) L t' a' (count + 1) = fromPolygonLoop poly (g + 2) L t' a' (count + 1) :=
        fun L t' a' => ih L t' a' (count + 1) (by omega)
      rw [fromPolygonLoop, fromPolygonLoop]
      simp only [ih']

end G3d.C09
