import G3d.Props.C04
import G3d.Model.Polygon
import G3d.Proofs.VecLemmas
/-!
# C11 — cutting a hole is all-or-nothing and accounts for its area

Generic in the scalar type:
* `cutHole_cases` — `cut_hole` either fails and leaves the polygon exactly as it was, or succeeds, appends the hole to the
  list of holes (count + 1) and subtracts exactly the hole's stored area from the polygon's area.
* `cutHole_ok_iff` — it succeeds exactly when the normals pass `is_parallel`, every vertex of the hole tests inside the
  polygon (inside the outer loop and in no existing hole), no vertex of an existing hole tests inside the new hole, and the
  hole is closed.
* `cutHoles_area` — over any sequence of candidate holes, the final area is the initial area minus the areas of the accepted
  holes (in order), and the hole count grows by the number of accepted holes.
Over ℝ: `different_plane_refused` — a hole whose normal is not parallel to the polygon's (`|n × m|² ≥ 1e-5`) is refused.
-/
namespace G3d.C11
open G3d Num C04
set_option linter.unusedSectionVars false
variable {α : Type} [Num α]

/-- the three checks of `cut_hole` after the normal test, as one outcome -/
def checks (pg : Polygon α) (hole : Loop α) : Res α := do
  let allIn ← Polygon.holeVerticesInside pg hole.vertices
  if !allIn then .err "polygon3d.rs:cut_hole:point-not-inside" else
  let swallows ← Polygon.holeContainsAnyLoop hole pg.inner
  if swallows then .err "polygon3d.rs:cut_hole:contains-other-hole" else
  hole.areaR

/-- **all-or-nothing**: every way `cut_hole` can end -/
theorem cutHole_cases (pg : Polygon α) (hole : Loop α) :
    (pg.cutHole hole).2 ≠ .ok () ∧ (pg.cutHole hole).1 = pg ∨
    (pg.cutHole hole).2 = .ok () ∧ hole.closed = true ∧
      (pg.cutHole hole).1 = { pg with area := pg.area - hole.area, inner := pg.inner ++ [hole] } := by
  unfold Polygon.cutHole
  by_cases hp : (!(pg.normal.isParallel hole.normal)) = true
  · simp only [hp, if_true]; exact Or.inl ⟨by simp, by trivial⟩
  · simp only [hp]
    cases hc : (do
        let allIn ← Polygon.holeVerticesInside pg hole.vertices
        if !allIn then Res.err "polygon3d.rs:cut_hole:point-not-inside" else
        let swallows ← Polygon.holeContainsAnyLoop hole pg.inner
        if swallows then Res.err "polygon3d.rs:cut_hole:contains-other-hole" else
        hole.areaR : Res α) with
    | err e => exact Or.inl ⟨by simp, rfl⟩
    | panic q => exact Or.inl ⟨by simp, rfl⟩
    | ok holeArea =>
      refine Or.inr ⟨rfl, ?_⟩
      -- the only `ok` exit of the checks is `hole.area()`
      have : hole.areaR = .ok holeArea := by
        cases h1 : Polygon.holeVerticesInside pg hole.vertices with
        | err e => rw [h1] at hc; simp [bind, Res.bind] at hc
        | panic q => rw [h1] at hc; simp [bind, Res.bind] at hc
        | ok allIn =>
          rw [h1] at hc
          simp only [bind, Res.bind] at hc
          cases allIn with
          | false => simp at hc
          | true =>
            simp only [Bool.not_true, Bool.false_eq_true, if_false] at hc
            cases h2 : Polygon.holeContainsAnyLoop hole pg.inner with
            | err e => rw [h2] at hc; simp at hc
            | panic q => rw [h2] at hc; simp at hc
            | ok sw =>
              rw [h2] at hc
              cases sw with
              | true => simp at hc
              | false => simpa using hc
      unfold Loop.areaR at this
      by_cases hcl : hole.closed = true
      · simp only [hcl, Bool.not_true, Bool.false_eq_true, if_false] at this
        cases this
        exact ⟨hcl, rfl⟩
      · simp [hcl] at this

/-- **a refused `cut_hole` leaves the polygon unchanged** -/
theorem cutHole_unchanged_of_not_ok (pg : Polygon α) (hole : Loop α) (h : (pg.cutHole hole).2 ≠ .ok ()) :
    (pg.cutHole hole).1 = pg := by
  rcases cutHole_cases pg hole with ⟨_, h2⟩ | ⟨h1, _⟩
  · exact h2
  · exact absurd h1 h

/-- **on success the area decreases by exactly the hole's area and the hole count grows by one** -/
theorem cutHole_ok_accounts (pg : Polygon α) (hole : Loop α) (h : (pg.cutHole hole).2 = .ok ()) :
    (pg.cutHole hole).1.area = pg.area - hole.area ∧
    (pg.cutHole hole).1.inner.length = pg.inner.length + 1 ∧
    (pg.cutHole hole).1.inner = pg.inner ++ [hole] ∧
    (pg.cutHole hole).1.outer = pg.outer ∧ (pg.cutHole hole).1.normal = pg.normal := by
  rcases cutHole_cases pg hole with ⟨h1, _⟩ | ⟨_, _, h3⟩
  · exact absurd h h1
  · rw [h3]; simp

/-- **when `cut_hole` succeeds, exactly** -/
theorem cutHole_ok_iff (pg : Polygon α) (hole : Loop α) :
    (pg.cutHole hole).2 = .ok () ↔
      pg.normal.isParallel hole.normal = true ∧
      Polygon.holeVerticesInside pg hole.vertices = .ok true ∧
      Polygon.holeContainsAnyLoop hole pg.inner = .ok false ∧
      hole.closed = true := by
  unfold Polygon.cutHole
  by_cases hp : pg.normal.isParallel hole.normal = true
  · simp only [hp, Bool.not_true, Bool.false_eq_true, if_false, true_and]
    cases h1 : Polygon.holeVerticesInside pg hole.vertices with
    | err e => simp [bind, Res.bind]
    | panic q => simp [bind, Res.bind]
    | ok allIn =>
      cases allIn with
      | false => simp [bind, Res.bind]
      | true =>
        cases h2 : Polygon.holeContainsAnyLoop hole pg.inner with
        | err e => simp [bind, Res.bind]
        | panic q => simp [bind, Res.bind]
        | ok sw =>
          cases sw with
          | true => simp [bind, Res.bind]
          | false =>
            by_cases hcl : hole.closed = true
            · simp [bind, Res.bind, Loop.areaR, hcl]
            · simp [bind, Res.bind, Loop.areaR, hcl]
  · simp [hp]

/-! ## sequences of candidate holes -/

/-- cut a sequence of candidate holes, whatever each call returns -/
def cutAll (pg : Polygon α) (holes : List (Loop α)) : Polygon α :=
  holes.foldl (fun pg h => (pg.cutHole h).1) pg

/-- the holes of the sequence that were accepted, in order -/
def accepted : Polygon α → List (Loop α) → List (Loop α)
  | _, [] => []
  | pg, h :: rest =>
    if (pg.cutHole h).2.isOk then h :: accepted (pg.cutHole h).1 rest else accepted (pg.cutHole h).1 rest

/-- **over any sequence of candidates: the holes stored are the initial ones followed by the accepted ones, and the area is
    the initial area minus the accepted holes' areas, subtracted in order** -/
theorem cutAll_accounts (holes : List (Loop α)) : ∀ (pg : Polygon α),
    (cutAll pg holes).inner = pg.inner ++ accepted pg holes ∧
    (cutAll pg holes).area = (accepted pg holes).foldl (fun a h => a - h.area) pg.area ∧
    (cutAll pg holes).outer = pg.outer := by
  induction holes with
  | nil => intro pg; simp [cutAll, accepted]
  | cons h t ih =>
    intro pg
    obtain ⟨i1, i2, i3⟩ := ih (pg.cutHole h).1
    simp only [cutAll, List.foldl_cons] at i1 i2 i3 ⊢
    by_cases hok : (pg.cutHole h).2 = .ok ()
    · obtain ⟨a1, _, a3, a4, _⟩ := cutHole_ok_accounts pg h hok
      have hok' : (pg.cutHole h).2.isOk = true := by rw [hok]; rfl
      simp only [accepted, hok', if_true, List.foldl_cons]
      rw [i1, i2, i3, a3, a1, a4]
      simp
    · have hu := cutHole_unchanged_of_not_ok pg h hok
      have hok' : (pg.cutHole h).2.isOk = false := by
        cases hr : (pg.cutHole h).2 with
        | ok u => exact absurd hr hok
        | err e => rfl
        | panic q => rfl
      simp only [accepted, hok', Bool.false_eq_true, if_false]
      rw [i1, i2, i3, hu]
      simp

/-! ## over ℝ: a hole in a different plane is refused -/
noncomputable section

/-- Lagrange: `(a·v)² − |a|²|v|² = −|a × v|²` -/
theorem lagrange (a v : V3 ℝ) :
    (a.dot v) * (a.dot v) - a.lengthSquared * v.lengthSquared = -((a.cross v).lengthSquared) := by
  vec_real; ring

/-- `is_parallel` only accepts directions with `|a × v|² < 1e-5` -/
theorem isParallel_real (a v : V3 ℝ) (h : a.isParallel v = true) : (a.cross v).lengthSquared < 1e-5 := by
  unfold V3.isParallel at h
  split at h
  · cases h
  · simp only [real_lt_dec, decide_eq_true_eq] at h
    num_real_at h
    rw [lagrange, abs_neg] at h
    exact lt_of_le_of_lt (le_abs_self _) h

/-- **a hole whose plane differs from the polygon's (`|n × m|² ≥ 1e-5` for the two unit normals, i.e. an angle of more than
    about 0.18°) is refused, and the polygon is unchanged** -/
theorem different_plane_refused (pg : Polygon ℝ) (hole : Loop ℝ)
    (h : 1e-5 ≤ (pg.normal.cross hole.normal).lengthSquared) :
    pg.cutHole hole = (pg, .err "polygon3d.rs:cut_hole:normals-not-parallel") := by
  have : pg.normal.isParallel hole.normal = false := by
    cases hp : pg.normal.isParallel hole.normal with
    | false => rfl
    | true => exact absurd (isParallel_real _ _ hp) (not_lt.mpr h)
  simp [Polygon.cutHole, this]

end
end G3d.C11
