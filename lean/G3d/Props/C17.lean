import G3d.Props.C07
import Mathlib.Tactic.FieldSimp
import Mathlib.Tactic.Ring
import Mathlib.Tactic.LinearCombination
/-!
# C17 — the interval quadratic solver encloses the true roots

Built on the C07 enclosure theorems, for every scalar type with the `Rounded` laws.

* `solve_none_of_negative`: if the discriminant is negative for some admissible coefficient choice — in particular if
  it is negative for all of them — the solver answers "no solution".  (Contrapositive: whenever it returns roots, the
  discriminant is ≥ 0 for **every** admissible choice.)
* `solve_encloses`: when it returns `(X₁, X₂)`, then for every real `a ∈ A, b ∈ B, c ∈ C` the two returned intervals
  enclose the two real roots `q/a` and `c/q` of `a x² + b x + c` (`q = −(b ± √Δ)/2`, the sign chosen by the code), one
  each; both are well formed and `X₁.low ≤ X₂.low`.
* `roots_are_roots`: those two numbers are exactly the roots (Vieta), so nothing else is enclosed "by accident".
* `solve_ordered_of_disjoint`: if the two returned intervals are disjoint, the smaller true root lies in the first and the
  larger in the second.  For overlapping enclosures (near-double roots) the order of the two roots inside the union is not
  determined by the intervals; that case is only covered by `solve_encloses`.

Hypothesis `NoOverflow`: every intermediate interval of the computation has finite end points (true throughout the
property's space, magnitudes 1e-6..1e6; the harness measures it), `0 ∉ A` and `0 ∉ Q`.
The statement "roots are returned whenever the discriminant is clearly positive" is a tightness (width) claim; it is
not proved here and is covered by the oracle only.
-/
namespace G3d.C17
open G3d Num Rounded C07

variable {F : Type} [Num F] [Rounded F]

/-- finite, non-NaN end points -/
def FinEnds (r : Approx F) : Prop := ∃ l h : ℝ, Is r.low l ∧ Is r.high h

theorem wfin_of_encl {r : Approx F} {z : ℝ} (he : Encl r z) (hf : FinEnds r) :
    ∃ l h : ℝ, WFin r l h ∧ l ≤ z ∧ z ≤ h := by
  obtain ⟨l, h, hl, hh⟩ := hf
  obtain ⟨⟨lo, hi⟩, _⟩ := he
  have h1 : l ≤ z := by have := lo.2; rw [hl.2] at this; exact EReal.coe_le_coe_iff.1 this
  have h2 : z ≤ h := by have := hi.2; rw [hh.2] at this; exact EReal.coe_le_coe_iff.1 this
  exact ⟨l, h, ⟨hl, hh, le_trans h1 h2⟩, h1, h2⟩

theorem is_four : Is (4 : F) 4 := ⟨four_val.1, four_val.2⟩
theorem is_half : Is (0.5 : F) (1 / 2) := ⟨half_val.1, half_val.2⟩

/-- the discriminant interval encloses `b² − 4ac` for every coefficient choice -/
theorem disc_encloses {A B C : Approx F} {al ah bl bh cl ch a b c : ℝ}
    (hA : WFin A al ah) (hB : WFin B bl bh) (hC : WFin C cl ch)
    (ha : al ≤ a ∧ a ≤ ah) (hb : bl ≤ b ∧ b ≤ bh) (hc : cl ≤ c ∧ c ≤ ch)
    (f1 : FinEnds (B.mul B)) (f2 : FinEnds (A.mul C)) (f3 : FinEnds ((A.mul C).mulF 4)) :
    Encl ((B.mul B).sub ((A.mul C).mulF 4)) (b * b - a * c * 4) := by
  obtain ⟨l1, h1, w1, m1⟩ := wfin_of_encl (mul_encloses hB hB hb.1 hb.2 hb.1 hb.2) f1
  obtain ⟨l2, h2, w2, m2⟩ := wfin_of_encl (mul_encloses hA hC ha.1 ha.2 hc.1 hc.2) f2
  obtain ⟨l3, h3, w3, m3⟩ := wfin_of_encl (mulF_encloses w2 is_four m2.1 m2.2) f3
  exact sub_encloses w1 w3 m1.1 m1.2 m3.1 m3.2

/-- **no solution is reported whenever the discriminant is negative for an admissible choice of coefficients** -/
theorem solve_none_of_negative {A B C : Approx F} {al ah bl bh cl ch a b c : ℝ}
    (hA : WFin A al ah) (hB : WFin B bl bh) (hC : WFin C cl ch)
    (ha : al ≤ a ∧ a ≤ ah) (hb : bl ≤ b ∧ b ≤ bh) (hc : cl ≤ c ∧ c ≤ ch)
    (f1 : FinEnds (B.mul B)) (f2 : FinEnds (A.mul C)) (f3 : FinEnds ((A.mul C).mulF 4))
    (hneg : b * b - 4 * a * c < 0) : Approx.solveQuadratic A B C = none := by
  have e := disc_encloses hA hB hC ha hb hc f1 f2 f3
  have hlt : val ((B.mul B).sub ((A.mul C).mulF 4)).low < val (0 : F) := by
    rw [(zero_val (F := F)).2]
    refine lt_of_le_of_lt e.1.1.2 ?_
    rw [← EReal.coe_zero]; exact EReal.coe_lt_coe_iff.2 (by linarith)
  have : Num.lt ((B.mul B).sub ((A.mul C).mulF 4)).low (0 : F) = true :=
    (lt_iff _ _ e.2.1 zero_val.1).2 hlt
  unfold Approx.solveQuadratic
  simp only [this, if_true]

theorem root_of_key1 {a b c q : ℝ} (ha : a ≠ 0) (key : q * q + b * q + a * c = 0) :
    a * (q / a) ^ 2 + b * (q / a) + c = 0 := by
  have : a * (q / a) ^ 2 + b * (q / a) + c = (q * q + b * q + a * c) / a := by field_simp
  rw [this, key, zero_div]

theorem root_of_key2 {a b c q : ℝ} (hq : q ≠ 0) (key : q * q + b * q + a * c = 0) :
    a * (c / q) ^ 2 + b * (c / q) + c = 0 := by
  have : a * (c / q) ^ 2 + b * (c / q) + c = c * (q * q + b * q + a * c) / q ^ 2 := by field_simp; ring
  rw [this, key, mul_zero, zero_div]

/-- the two real roots computed by the solver's formula (Vieta form), for the sign `σ = ±√Δ` it picks -/
theorem roots_are_roots {a b c σ : ℝ} (ha : a ≠ 0) (hσ : σ * σ = b * b - a * c * 4)
    (hq : -(b + σ) * (1 / 2) ≠ 0) :
    a * (-(b + σ) * (1 / 2) / a) ^ 2 + b * (-(b + σ) * (1 / 2) / a) + c = 0 ∧
    a * (c / (-(b + σ) * (1 / 2))) ^ 2 + b * (c / (-(b + σ) * (1 / 2))) + c = 0 := by
  have key : (-(b + σ) * (1 / 2)) * (-(b + σ) * (1 / 2)) + b * (-(b + σ) * (1 / 2)) + a * c = 0 := by
    linear_combination (1 / 4 : ℝ) * hσ
  exact ⟨root_of_key1 ha key, root_of_key2 hq key⟩

/-- all intermediate intervals of one run are finite, and the two divisions are legal -/
structure NoOverflow (A B C : Approx F) (sgn : Bool) : Prop where
  f1 : FinEnds (B.mul B)
  f2 : FinEnds (A.mul C)
  f3 : FinEnds ((A.mul C).mulF 4)
  f4 : FinEnds ((B.mul B).sub ((A.mul C).mulF 4))
  f5 : FinEnds ((B.mul B).sub ((A.mul C).mulF 4)).sqrt
  f6 : FinEnds (if sgn then B.sub ((B.mul B).sub ((A.mul C).mulF 4)).sqrt else B.add ((B.mul B).sub ((A.mul C).mulF 4)).sqrt)
  f7 : FinEnds ((if sgn then B.sub ((B.mul B).sub ((A.mul C).mulF 4)).sqrt
                 else B.add ((B.mul B).sub ((A.mul C).mulF 4)).sqrt).neg.mulF 0.5)

/-- the intervals `q/a` and `c/q` before sorting -/
def rawRoots (A B C : Approx F) : Approx F × Approx F :=
  let disc := (B.mul B).sub ((A.mul C).mulF 4)
  let ds := disc.sqrt
  let q := if B.midpoint <. (0 : F) then ((B.sub ds).neg).mulF 0.5 else ((B.add ds).neg).mulF 0.5
  (q.div A, C.div q)

omit [Rounded F] in
theorem solve_eq {A B C : Approx F} {X1 X2 : Approx F} (h : Approx.solveQuadratic A B C = some (X1, X2)) :
    ¬ (Num.lt ((B.mul B).sub ((A.mul C).mulF 4)).low (0 : F) = true) ∧
    ((X1, X2) = rawRoots A B C ∨ (X1, X2) = ((rawRoots A B C).2, (rawRoots A B C).1)) ∧
    ((X1, X2) = (if (rawRoots A B C).1.low >. (rawRoots A B C).2.low then ((rawRoots A B C).2, (rawRoots A B C).1)
                 else rawRoots A B C)) := by
  unfold Approx.solveQuadratic at h
  by_cases hd : Num.lt ((B.mul B).sub ((A.mul C).mulF 4)).low (0 : F) = true
  · simp [hd] at h
  · simp only [hd] at h
    refine ⟨hd, ?_, ?_⟩
    · by_cases hs : (rawRoots A B C).1.low >. (rawRoots A B C).2.low
      · right
        simp only [rawRoots] at hs ⊢
        simp only [Bool.false_eq_true, if_false, hs, if_true, Option.some.injEq] at h
        exact h.symm
      · left
        simp only [rawRoots] at hs ⊢
        simp only [Bool.false_eq_true, if_false, hs, Option.some.injEq] at h
        exact h.symm
    · by_cases hs : (rawRoots A B C).1.low >. (rawRoots A B C).2.low
      · simp only [hs, if_true]
        simp only [rawRoots] at hs ⊢
        simp only [Bool.false_eq_true, if_false, hs, if_true, Option.some.injEq] at h
        exact h.symm
      · simp only [hs]
        simp only [rawRoots] at hs ⊢
        simp only [Bool.false_eq_true, if_false, hs, Option.some.injEq] at h
        exact h.symm

/-- **the unsorted pair encloses the two roots `q/a`, `c/q`** for every coefficient choice -/
theorem rawRoots_enclose {A B C : Approx F} {al ah bl bh cl ch a b c : ℝ}
    (hA : WFin A al ah) (hB : WFin B bl bh) (hC : WFin C cl ch)
    (ha : al ≤ a ∧ a ≤ ah) (hb : bl ≤ b ∧ b ≤ bh) (hc : cl ≤ c ∧ c ≤ ch)
    (hA0 : 0 < al ∨ ah < 0)
    (hd : ¬ (Num.lt ((B.mul B).sub ((A.mul C).mulF 4)).low (0 : F) = true))
    (nov : NoOverflow A B C (B.midpoint <. (0 : F)))
    (hQ0 : ∀ ql qh : ℝ, WFin (if B.midpoint <. (0 : F) then ((B.sub ((B.mul B).sub ((A.mul C).mulF 4)).sqrt).neg).mulF 0.5
                              else ((B.add ((B.mul B).sub ((A.mul C).mulF 4)).sqrt).neg).mulF 0.5) ql qh → 0 < ql ∨ qh < 0) :
    ∃ σ : ℝ, σ * σ = b * b - a * c * 4 ∧ 0 ≤ b * b - a * c * 4 ∧
      -(b + σ) * (1 / 2) ≠ 0 ∧
      Encl (rawRoots A B C).1 (-(b + σ) * (1 / 2) / a) ∧ Encl (rawRoots A B C).2 (c / (-(b + σ) * (1 / 2))) := by
  have eD := disc_encloses hA hB hC ha hb hc nov.f1 nov.f2 nov.f3
  obtain ⟨dl, dh, wD, mD⟩ := wfin_of_encl eD nov.f4
  -- the lower end of the discriminant interval is ≥ 0
  have hdl : 0 ≤ dl := by
    by_contra hneg
    apply hd
    refine (lt_iff _ _ wD.1.1 zero_val.1).2 ?_
    rw [wD.1.2, (zero_val (F := F)).2, ← EReal.coe_zero]
    exact EReal.coe_lt_coe_iff.2 (not_le.1 hneg)
  have hΔ : 0 ≤ b * b - a * c * 4 := le_trans hdl mD.1
  have eS := sqrt_encloses wD hdl mD.1 mD.2
  obtain ⟨sl, sh, wS, mS⟩ := wfin_of_encl eS nov.f5
  set Δ := b * b - a * c * 4 with hΔdef
  have hss : Real.sqrt Δ * Real.sqrt Δ = Δ := Real.mul_self_sqrt hΔ
  by_cases hs : (B.midpoint <. (0 : F)) = true
  · -- q = -(b - √Δ)/2, i.e. σ = -√Δ
    have f6 := nov.f6; have f7 := nov.f7
    simp only [hs, if_true] at f6 f7 hQ0
    have e1 := sub_encloses hB wS hb.1 hb.2 mS.1 mS.2
    obtain ⟨l1, h1, w1, m1⟩ := wfin_of_encl e1 f6
    have e2 := neg_encloses w1 m1.1 m1.2
    have w2 : WFin ((B.sub ((B.mul B).sub ((A.mul C).mulF 4)).sqrt).neg) (-h1) (-l1) := by
      obtain ⟨x1, x2, x3⟩ := w1
      obtain ⟨nl, vl⟩ := neg_spec _ x1.1
      obtain ⟨nh, vh⟩ := neg_spec _ x2.1
      refine ⟨⟨nh, ?_⟩, ⟨nl, ?_⟩, by linarith⟩
      · show val (-(B.sub _).high) = _; rw [vh, x2.2, EReal.coe_neg]
      · show val (-(B.sub _).low) = _; rw [vl, x1.2, EReal.coe_neg]
    have e3 := mulF_encloses (x := -(b - Real.sqrt Δ)) w2 is_half (by linarith [m1.2]) (by linarith [m1.1])
    obtain ⟨ql, qh, wq, mq⟩ := wfin_of_encl e3 f7
    have hq0 := hQ0 ql qh wq
    have hqne : -(b - Real.sqrt Δ) * (1 / 2) ≠ 0 := by
      rcases hq0 with h | h
      · exact ne_of_gt (lt_of_lt_of_le h mq.1)
      · exact ne_of_lt (lt_of_le_of_lt mq.2 h)
    refine ⟨-Real.sqrt Δ, by linarith [hss], hΔ, by simpa [sub_eq_add_neg] using hqne, ?_, ?_⟩
    · have := div_encloses wq hA hA0 mq.1 mq.2 ha.1 ha.2
      simpa [rawRoots, hs, sub_eq_add_neg] using this
    · have := div_encloses hC wq hq0 hc.1 hc.2 mq.1 mq.2
      simpa [rawRoots, hs, sub_eq_add_neg] using this
  · have f6 := nov.f6; have f7 := nov.f7
    simp only [hs] at f6 f7 hQ0
    have e1 := add_encloses hB wS hb.1 hb.2 mS.1 mS.2
    obtain ⟨l1, h1, w1, m1⟩ := wfin_of_encl e1 f6
    have w2 : WFin ((B.add ((B.mul B).sub ((A.mul C).mulF 4)).sqrt).neg) (-h1) (-l1) := by
      obtain ⟨x1, x2, x3⟩ := w1
      obtain ⟨nl, vl⟩ := neg_spec _ x1.1
      obtain ⟨nh, vh⟩ := neg_spec _ x2.1
      refine ⟨⟨nh, ?_⟩, ⟨nl, ?_⟩, by linarith⟩
      · show val (-(B.add _).high) = _; rw [vh, x2.2, EReal.coe_neg]
      · show val (-(B.add _).low) = _; rw [vl, x1.2, EReal.coe_neg]
    have e3 := mulF_encloses (x := -(b + Real.sqrt Δ)) w2 is_half (by linarith [m1.2]) (by linarith [m1.1])
    obtain ⟨ql, qh, wq, mq⟩ := wfin_of_encl e3 f7
    have hq0 := hQ0 ql qh wq
    have hqne : -(b + Real.sqrt Δ) * (1 / 2) ≠ 0 := by
      rcases hq0 with h | h
      · exact ne_of_gt (lt_of_lt_of_le h mq.1)
      · exact ne_of_lt (lt_of_le_of_lt mq.2 h)
    refine ⟨Real.sqrt Δ, hss, hΔ, hqne, ?_, ?_⟩
    · have := div_encloses wq hA hA0 mq.1 mq.2 ha.1 ha.2
      simpa [rawRoots, hs] using this
    · have := div_encloses hC wq hq0 hc.1 hc.2 mq.1 mq.2
      simpa [rawRoots, hs] using this

/-- **when two root intervals are returned they enclose the two true roots (one each), are well formed, and are
    sorted by their lower ends** -/
theorem solve_encloses {A B C X1 X2 : Approx F} {al ah bl bh cl ch a b c : ℝ}
    (h : Approx.solveQuadratic A B C = some (X1, X2))
    (hA : WFin A al ah) (hB : WFin B bl bh) (hC : WFin C cl ch)
    (ha : al ≤ a ∧ a ≤ ah) (hb : bl ≤ b ∧ b ≤ bh) (hc : cl ≤ c ∧ c ≤ ch)
    (hA0 : 0 < al ∨ ah < 0)
    (nov : NoOverflow A B C (B.midpoint <. (0 : F)))
    (hQ0 : ∀ ql qh : ℝ, WFin (if B.midpoint <. (0 : F) then ((B.sub ((B.mul B).sub ((A.mul C).mulF 4)).sqrt).neg).mulF 0.5
                              else ((B.add ((B.mul B).sub ((A.mul C).mulF 4)).sqrt).neg).mulF 0.5) ql qh → 0 < ql ∨ qh < 0) :
    ∃ r1 r2 : ℝ, a * r1 ^ 2 + b * r1 + c = 0 ∧ a * r2 ^ 2 + b * r2 + c = 0 ∧
      (∀ x : ℝ, a * x ^ 2 + b * x + c = 0 → x = r1 ∨ x = r2) ∧
      ((Encl X1 r1 ∧ Encl X2 r2) ∨ (Encl X1 r2 ∧ Encl X2 r1)) ∧ val X1.low ≤ val X2.low := by
  obtain ⟨hd, hsw, hsort⟩ := solve_eq h
  have ane : a ≠ 0 := by
    rcases hA0 with h0 | h0
    · exact ne_of_gt (lt_of_lt_of_le h0 ha.1)
    · exact ne_of_lt (lt_of_le_of_lt ha.2 h0)
  obtain ⟨σ, hσ, _, hq, e1, e2⟩ := rawRoots_enclose hA hB hC ha hb hc hA0 hd nov hQ0
  obtain ⟨r1ok, r2ok⟩ := roots_are_roots ane hσ hq
  refine ⟨_, _, r1ok, r2ok, ?_, ?_, ?_⟩
  · -- a quadratic with a ≠ 0 has no other roots: a(x - r1)(x - r2) = a x² + b x + c
    intro x hx
    set q := -(b + σ) * (1 / 2) with hqdef
    have hsum : q / a + c / q = -b / a := by
      have key : q * q + b * q + a * c = 0 := by simp only [hqdef]; linear_combination (1 / 4 : ℝ) * hσ
      field_simp
      linear_combination key
    have hprod : (q / a) * (c / q) = c / a := by field_simp
    have fact : a * ((x - q / a) * (x - c / q)) = a * x ^ 2 + b * x + c := by
      have : a * ((x - q / a) * (x - c / q)) = a * x ^ 2 - a * (q / a + c / q) * x + a * ((q / a) * (c / q)) := by ring
      rw [this, hsum, hprod]; field_simp; ring
    rw [hx] at fact
    rcases mul_eq_zero.1 fact with h0 | h0
    · exact absurd h0 ane
    · rcases mul_eq_zero.1 h0 with h1 | h1
      · left; linarith
      · right; linarith
  · rcases hsw with hh | hh
    · left
      have h1 : X1 = (rawRoots A B C).1 := congrArg Prod.fst hh
      have h2 : X2 = (rawRoots A B C).2 := congrArg Prod.snd hh
      rw [h1, h2]; exact ⟨e1, e2⟩
    · right
      have h1 : X1 = (rawRoots A B C).2 := congrArg Prod.fst hh
      have h2 : X2 = (rawRoots A B C).1 := congrArg Prod.snd hh
      rw [h1, h2]; exact ⟨e2, e1⟩
  · -- sorted by lower end
    have n1 := e1.2.1; have n2 := e2.2.1
    by_cases hs : (rawRoots A B C).1.low >. (rawRoots A B C).2.low
    · simp only [hs, if_true] at hsort
      have h1 : X1 = (rawRoots A B C).2 := congrArg Prod.fst hsort
      have h2 : X2 = (rawRoots A B C).1 := congrArg Prod.snd hsort
      rw [h1, h2]
      exact le_of_lt ((lt_iff _ _ n2 n1).1 hs)
    · simp only [hs] at hsort
      have h1 : X1 = (rawRoots A B C).1 := congrArg Prod.fst hsort
      have h2 : X2 = (rawRoots A B C).2 := congrArg Prod.snd hsort
      rw [h1, h2]
      exact not_lt.1 (fun hlt => hs ((lt_iff _ _ n2 n1).2 hlt))

/-- **if the two returned intervals are disjoint, the smaller root is in the first and the larger in the second** -/
theorem solve_ordered_of_disjoint {X1 X2 : Approx F} {r1 r2 : ℝ}
    (henc : (Encl X1 r1 ∧ Encl X2 r2) ∨ (Encl X1 r2 ∧ Encl X2 r1))
    (hdis : val X1.high < val X2.low) :
    Encl X1 (min r1 r2) ∧ Encl X2 (max r1 r2) := by
  rcases henc with ⟨h1, h2⟩ | ⟨h1, h2⟩
  · have : r1 < r2 := by
      have := lt_of_le_of_lt h1.1.2.2 (lt_of_lt_of_le hdis h2.1.1.2)
      exact EReal.coe_lt_coe_iff.1 this
    rw [min_eq_left (le_of_lt this), max_eq_right (le_of_lt this)]; exact ⟨h1, h2⟩
  · have : r2 < r1 := by
      have := lt_of_le_of_lt h1.1.2.2 (lt_of_lt_of_le hdis h2.1.1.2)
      exact EReal.coe_lt_coe_iff.1 this
    rw [min_eq_right (le_of_lt this), max_eq_left (le_of_lt this)]; exact ⟨h1, h2⟩


/-- **the two intervals are returned in ascending order of their lower bounds**, whatever the coefficients: the second one's
    lower end is never below the first one's -/
theorem solve_lows_ascending {A B C X1 X2 : Approx F} (h : Approx.solveQuadratic A B C = some (X1, X2))
    (hn1 : ¬ nan X1.low) (hn2 : ¬ nan X2.low) : val X1.low ≤ val X2.low := by
  obtain ⟨_, _, h3⟩ := solve_eq h
  by_cases hs : ((rawRoots A B C).1.low >. (rawRoots A B C).2.low) = true
  · rw [if_pos hs] at h3
    simp only [Prod.mk.injEq] at h3
    obtain ⟨e1, e2⟩ := h3
    rw [e1] at hn1 ⊢
    rw [e2] at hn2 ⊢
    have := (lt_iff _ _ hn1 hn2).1 hs
    exact le_of_lt this
  · rw [if_neg hs] at h3
    have e1 : X1 = (rawRoots A B C).1 := by rw [← h3]
    have e2 : X2 = (rawRoots A B C).2 := by rw [← h3]
    rw [e1] at hn1 ⊢
    rw [e2] at hn2 ⊢
    have hnot : ¬ (val (rawRoots A B C).2.low < val (rawRoots A B C).1.low) := by
      intro hlt
      exact hs ((lt_iff _ _ hn2 hn1).2 hlt)
    exact not_lt.1 hnot

/-! ## when roots are returned -/

/-- **when are roots returned?**  For every scalar type: `solve_quadratic` answers `None` exactly when the lower end of the
    discriminant interval `b·b − (a·c)·4` compares below zero — nothing later in the function can turn a solvable case into
    `None` (with `solve_none_of_negative`: `None` is reported for every negative discriminant and *only* when the computed
    interval reaches below zero) -/
theorem solve_none_iff {α : Type} [Num α] (A B C : Approx α) :
    Approx.solveQuadratic A B C = none ↔ Num.lt ((B.mul B).sub ((A.mul C).mulF 4)).low (0 : α) = true := by
  unfold Approx.solveQuadratic
  by_cases h : Num.lt ((B.mul B).sub ((A.mul C).mulF 4)).low (0 : α) = true
  · simp [h]
  · simp only [h]
    constructor
    · intro hn
      simp only [Bool.false_eq_true, if_false] at hn
      repeat' split at hn
      all_goals cases hn
    · intro hf; exact absurd hf (by simp)

theorem solve_isSome_iff {α : Type} [Num α] (A B C : Approx α) :
    (Approx.solveQuadratic A B C).isSome = true ↔ Num.lt ((B.mul B).sub ((A.mul C).mulF 4)).low (0 : α) = false := by
  rw [← Bool.not_eq_true, ← solve_none_iff]
  cases Approx.solveQuadratic A B C <;> simp

end G3d.C17
