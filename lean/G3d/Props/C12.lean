import G3d.Props.C04
import G3d.Model.Polygon
import G3d.Proofs.Shoelace
/-!
# C12 — merging holes into one outline

Generic in the scalar type:
* `getClosedLoop_no_holes` — a polygon without holes is returned unchanged (its outer loop, opened).
* `walk_reverse_*`, `walk_forward_eq` — the hole walk `j = 0..n` visits every vertex of the hole exactly once and returns to
  its start vertex, in either direction (`(s + n − j) % n` for a hole wound like the outline, `(s + j) % n` — through the
  `as i32`/`as usize` casts of the code — for a hole wound the other way).
* `addInnerVertices_eq`, `buildAux_eq` — one merge step feeds `Loop3D::push`, in order: the outline up to the bridge vertex
  `e`, the whole hole walk `w₀ … w₀`, `e` again, and the rest of the outline (every vertex of the outline and of the hole is
  fed; a refused push ends `try_get_closed_loop` with that `Err`, which `get_closed_loop` unwraps).
Over ℝ (`merge_vector_area`, from `Shoelace.pathSum_bridge`): that fed outline `l₁ ++ e :: (w₀ … w₀) ++ e :: l₂` has vector area
`V(outline) + V(walk)`: the bridge, traversed once in each direction, encloses nothing; with the hole walked against the
outline's orientation this is the polygon's net area.
-/
namespace G3d.C12
open G3d Num C04
set_option linter.unusedSectionVars false
variable {α : Type} [Num α]

/-- **a polygon without holes is returned unchanged** (the outer loop with its `closed` flag cleared) -/
theorem getClosedLoop_no_holes (pg : Polygon α) (h : pg.inner = []) :
    pg.tryGetClosedLoop = .ok pg.outer.open ∧ pg.getClosedLoop = .ok pg.outer.open := by
  have h1 : pg.tryGetClosedLoop = .ok pg.outer.open := by simp [Polygon.tryGetClosedLoop, h, Polygon.closedLoopIter]
  exact ⟨h1, by simp [Polygon.getClosedLoop, h1, Res.unwrap]⟩

theorem open_vertices (l : Loop α) : l.open.vertices = l.vertices ∧ l.open.normal = l.normal ∧ l.open.area = l.area := by
  simp [Loop.open]

/-! ## the hole walk -/

/-- index of the `j`-th vertex of the walk that starts at vertex `s` of a hole with `n` vertices -/
def walkIdx (sameDirection : Bool) (s n j : Nat) : Nat :=
  if sameDirection then (s + n - j) % n
  else i32AsUsize (i32Add (usizeAsI32 s) (usizeAsI32 j)) % n

/-- for indices below 2³¹ the `as i32` / wrapping add / `as usize` chain is plain addition -/
theorem walk_forward_eq (s j : Nat) (h : s + j < 2147483648) :
    i32AsUsize (i32Add (usizeAsI32 s) (usizeAsI32 j)) = s + j := by
  have hs : s % 4294967296 = s := Nat.mod_eq_of_lt (by omega)
  have hj : j % 4294967296 = j := Nat.mod_eq_of_lt (by omega)
  unfold usizeAsI32 i32Add i32AsUsize
  simp only [hs, hj]
  have h1 : ¬ s ≥ 2147483648 := by omega
  have h2 : ¬ j ≥ 2147483648 := by omega
  simp only [h1, h2, if_false]
  have : ((s : Int) + (j : Int) + 2147483648) % 4294967296 = (s : Int) + (j : Int) + 2147483648 := by
    apply Int.emod_eq_of_lt <;> omega
  rw [this]
  have h3 : (s : Int) + (j : Int) + 2147483648 - 2147483648 ≥ 0 := by omega
  simp only [h3, if_true]
  omega

/-- forward walk: vertex `(s + j) % n` -/
theorem walk_forward (s n j : Nat) (h : s + j < 2147483648) : walkIdx false s n j = (s + j) % n := by
  simp [walkIdx, walk_forward_eq s j h]

/-- both walks start and end at the start vertex … -/
theorem walk_closed (same : Bool) (s n : Nat) (hs : s < n) (hn : s + n < 2147483648) :
    walkIdx same s n 0 = s ∧ walkIdx same s n n = s := by
  cases same with
  | true =>
    simp only [walkIdx, if_true]
    constructor
    · rw [Nat.sub_zero, Nat.add_mod_right]; exact Nat.mod_eq_of_lt hs
    · rw [Nat.add_sub_cancel]; exact Nat.mod_eq_of_lt hs
  | false =>
    rw [walk_forward s n 0 (by omega), walk_forward s n n hn]
    constructor
    · exact Nat.mod_eq_of_lt hs
    · rw [Nat.add_mod_right]; exact Nat.mod_eq_of_lt hs

/-- … stay inside the hole … -/
theorem walk_lt (same : Bool) (s n j : Nat) (hn : 0 < n) : walkIdx same s n j < n := by
  unfold walkIdx; split <;> exact Nat.mod_lt _ hn

/-- … and visit every vertex of the hole: vertex `k` is the `j`-th one for some `j < n` -/
theorem walk_visits_all (same : Bool) (s n k : Nat) (hs : s < n) (hk : k < n) (hn : s + n < 2147483648) :
    ∃ j, j < n ∧ walkIdx same s n j = k := by
  cases same with
  | true =>
    -- reverse walk: j = (s − k) mod n
    by_cases hks : k ≤ s
    · refine ⟨s - k, by omega, ?_⟩
      simp only [walkIdx, if_true]
      rw [show s + n - (s - k) = k + n by omega, Nat.add_mod_right]; exact Nat.mod_eq_of_lt hk
    · refine ⟨s + n - k, by omega, ?_⟩
      simp only [walkIdx, if_true]
      rw [show s + n - (s + n - k) = k by omega]; exact Nat.mod_eq_of_lt hk
  | false =>
    by_cases hks : s ≤ k
    · refine ⟨k - s, by omega, ?_⟩
      rw [walk_forward s n (k - s) (by omega), show s + (k - s) = k by omega]; exact Nat.mod_eq_of_lt hk
    · refine ⟨k + n - s, by omega, ?_⟩
      rw [walk_forward s n (k + n - s) (by omega), show s + (k + n - s) = k + n by omega, Nat.add_mod_right]
      exact Nat.mod_eq_of_lt hk

/-- … each exactly once among the first `n` steps -/
theorem walk_injective (same : Bool) (s n i j : Nat) (hs : s < n) (hi : i < n) (hj : j < n) (hn : s + n < 2147483648)
    (h : walkIdx same s n i = walkIdx same s n j) : i = j := by
  cases same with
  | true =>
    simp only [walkIdx, if_true] at h
    have key : ∀ x, x < n → (s + n - x) % n = if x ≤ s then s - x else s + n - x := by
      intro x hx
      by_cases hxs : x ≤ s
      · simp only [hxs, if_true]
        rw [show s + n - x = (s - x) + n by omega, Nat.add_mod_right]; exact Nat.mod_eq_of_lt (by omega)
      · simp only [hxs, if_false]; exact Nat.mod_eq_of_lt (by omega)
    rw [key i hi, key j hj] at h
    split at h <;> split at h <;> omega
  | false =>
    rw [walk_forward s n i (by omega), walk_forward s n j (by omega)] at h
    have key : ∀ x, x < n → (s + x) % n = if s + x < n then s + x else s + x - n := by
      intro x hx
      by_cases hxs : s + x < n
      · simp only [hxs, if_true]; exact Nat.mod_eq_of_lt hxs
      · simp only [hxs, if_false]
        have e : s + x = (s + x - n) + n := by omega
        rw [e, Nat.add_mod_right, Nat.add_sub_cancel]; exact Nat.mod_eq_of_lt (by omega)
    rw [key i hi, key j hj] at h
    split at h <;> split at h <;> omega

/-! ## what one merge step feeds to `push` -/

/-- `push(p)?` over a list of points (each with the name of its call site) -/
def pushAll : List (V3 α × String) → Loop α → Res (Loop α)
  | [], aux => .ok aux
  | (p, site) :: rest, aux =>
    match Polygon.pushQ aux p site with
    | .ok aux' => pushAll rest aux'
    | .err e => .err e
    | .panic s => .panic s

theorem pushAll_append (a b : List (V3 α × String)) (aux : Loop α) :
    pushAll (a ++ b) aux = (pushAll a aux).bind (pushAll b) := by
  induction a generalizing aux with
  | nil => rfl
  | cons x t ih =>
    obtain ⟨p, site⟩ := x
    simp only [List.cons_append, pushAll]
    cases Polygon.pushQ aux p site with
    | ok aux' => exact ih aux'
    | err e => rfl
    | panic s => rfl

def innerSite : String := "polygon3d.rs:get_closed_loop:push-inner.unwrap"
def extSite : String := "polygon3d.rs:get_closed_loop:push-ext.unwrap"
def returnSite : String := "polygon3d.rs:get_closed_loop:push-return.unwrap"

/-- the points of the hole walk from step `j`, `fuel` of them -/
def walkPoints (vs : List (V3 α)) (same : Bool) (s : Nat) (fuel j : Nat) : List (V3 α × String) :=
  (List.range fuel).map (fun k =>
    let v := vs.getD (walkIdx same s vs.length (j + k)) ⟨0, 0, 0⟩
    ((⟨v.x, v.y, v.z⟩ : V3 α), innerSite))

/-- **the inner loop of a merge step pushes exactly the hole walk** -/
theorem addInnerVertices_eq (il : Loop α) (same : Bool) (s : Nat) (hn : 0 < il.vertices.length) :
    ∀ (fuel j : Nat) (aux : Loop α),
      Polygon.addInnerVertices il same s il.vertices.length fuel j aux
        = pushAll (walkPoints il.vertices same s fuel j) aux := by
  intro fuel
  induction fuel with
  | zero => intro j aux; simp [Polygon.addInnerVertices, walkPoints, pushAll]
  | succ f ih =>
    intro j aux
    have hne : (il.vertices.length == 0) = false := by
      simp only [beq_eq_false_iff_ne, ne_eq]; omega
    have hlt := walk_lt same s il.vertices.length j hn
    have hidx : il.index (walkIdx same s il.vertices.length j)
        = .ok (il.vertices.getD (walkIdx same s il.vertices.length j) ⟨0, 0, 0⟩) := by
      unfold Loop.index
      have : ¬ walkIdx same s il.vertices.length j ≥ il.vertices.length := by omega
      simp only [this, if_false, vget_lt hlt]
      simp [List.getD_eq_getElem?_getD, List.getElem?_eq_getElem hlt]
    have hw : walkPoints il.vertices same s (f + 1) j
        = ((⟨(il.vertices.getD (walkIdx same s il.vertices.length j) ⟨0, 0, 0⟩).x,
             (il.vertices.getD (walkIdx same s il.vertices.length j) ⟨0, 0, 0⟩).y,
             (il.vertices.getD (walkIdx same s il.vertices.length j) ⟨0, 0, 0⟩).z⟩ : V3 α), innerSite)
          :: walkPoints il.vertices same s f (j + 1) := by
      unfold walkPoints
      rw [List.range_succ_eq_map]
      simp only [List.map_cons, List.map_map, Nat.add_zero]
      congr 1
      apply List.map_congr_left
      intro k _
      simp only [Function.comp]
      rw [show j + (k + 1) = j + 1 + k by omega]
    unfold Polygon.addInnerVertices
    simp only [hne, Bool.false_eq_true, if_false, bind, Res.bind]
    have hwi : (if same = true then (s + il.vertices.length - j) % il.vertices.length
        else i32AsUsize (i32Add (usizeAsI32 s) (usizeAsI32 j)) % il.vertices.length)
        = walkIdx same s il.vertices.length j := rfl
    rw [hwi, hidx, hw]
    simp only [pushAll, innerSite]
    cases Polygon.pushQ aux _ "polygon3d.rs:get_closed_loop:push-inner.unwrap" with
    | ok aux' => exact ih (j + 1) aux'
    | err e => rfl
    | panic q => rfl

/-- the points one merge step feeds, for the part `ext` of the outline that starts at index `i`: the outline vertices in
    order, with the hole walk (and the bridge vertex again) spliced in right after the bridge vertex -/
def fed (il : Loop α) (same : Bool) (s minExt : Nat) : List (V3 α) → Nat → List (V3 α × String)
  | [], _ => []
  | e :: rest, i =>
    (e, extSite) ::
      ((if i == minExt then walkPoints il.vertices same s (il.vertices.length + 1) 0 ++ [(e, returnSite)] else [])
        ++ fed il same s minExt rest (i + 1))

/-- **one merge step is `push(..).unwrap()` over the fed points** -/
theorem buildAux_eq (inner : List (Loop α)) (outerNormal : V3 α) (minExt minLoop s : Nat) (il : Loop α)
    (hil : inner[minLoop]? = some il) (hn : 0 < il.vertices.length) :
    ∀ (ext : List (V3 α)) (i : Nat) (aux : Loop α),
      Polygon.buildAux inner outerNormal minExt minLoop s ext i aux
        = pushAll (fed il (outerNormal.isSameDirection il.normal) s minExt ext i) aux := by
  intro ext
  induction ext with
  | nil => intro i aux; simp [Polygon.buildAux, fed, pushAll]
  | cons e rest ih =>
    intro i aux
    unfold Polygon.buildAux
    simp only [fed, pushAll, extSite, bind, Res.bind]
    cases h1 : Polygon.pushQ aux e "polygon3d.rs:get_closed_loop:push-ext.unwrap" with
    | err e' => rfl
    | panic q => rfl
    | ok aux1 =>
      simp only []
      by_cases hi : (i == minExt) = true
      · simp only [hi, if_true, hil, Loop.len]
        rw [addInnerVertices_eq il _ s hn, pushAll_append, pushAll_append]
        cases h2 : pushAll (walkPoints il.vertices (outerNormal.isSameDirection il.normal) s (il.vertices.length + 1) 0) aux1 with
        | err e' => rfl
        | panic q => rfl
        | ok aux2 =>
          simp only [Res.bind, pushAll, returnSite]
          cases h3 : Polygon.pushQ aux2 e "polygon3d.rs:get_closed_loop:push-return.unwrap" with
          | err e' => rfl
          | panic q => rfl
          | ok aux3 => exact ih (i + 1) aux3
      · simp only [hi, Bool.false_eq_true, if_false, List.nil_append]
        exact ih (i + 1) aux1

/-- shape of the fed point list: the outline, with `walk ++ [e]` spliced in right after the bridge vertex `e = ext[m]` -/
theorem fed_shape (il : Loop α) (same : Bool) (s m : Nat) :
    ∀ (ext : List (V3 α)) (i : Nat) (e : V3 α), i ≤ m → ext[m - i]? = some e →
      (fed il same s m ext i).map Prod.fst
        = ext.take (m - i) ++ e :: ((walkPoints il.vertices same s (il.vertices.length + 1) 0).map Prod.fst ++ [e])
            ++ ext.drop (m - i + 1) := by
  intro ext
  induction ext with
  | nil => intro i e _ h; simp at h
  | cons a rest ih =>
    intro i e him h
    by_cases hi : i = m
    · subst hi
      simp only [Nat.sub_self, List.getElem?_cons_zero, Option.some.injEq] at h
      subst h
      have hrest : ∀ (l : List (V3 α)) (j : Nat), i < j → (fed il same s i l j).map Prod.fst = l := by
        intro l
        induction l with
        | nil => intro j _; rfl
        | cons b t iht =>
          intro j hj
          have : (j == i) = false := by simp only [beq_eq_false_iff_ne, ne_eq]; omega
          simp only [fed, this, Bool.false_eq_true, if_false, List.nil_append, List.map_cons]
          rw [iht (j + 1) (by omega)]
      simp only [fed, beq_self_eq_true, if_true, List.map_cons, List.map_append, Nat.sub_self, List.take_zero,
        List.nil_append, List.drop_succ_cons, List.drop_zero, List.map_nil]
      rw [hrest rest (i + 1) (by omega)]
      simp
    · have hne : (i == m) = false := by simp only [beq_eq_false_iff_ne, ne_eq]; exact hi
      have hlt : i < m := by omega
      have h' : rest[m - (i + 1)]? = some e := by
        rw [show m - i = (m - (i + 1)) + 1 by omega] at h
        simpa using h
      have := ih (i + 1) e (by omega) h'
      simp only [fed, hne, Bool.false_eq_true, if_false, List.nil_append, List.map_cons]
      rw [this, show m - i = (m - (i + 1)) + 1 by omega]
      simp

/-! ## over ℝ: the merged outline encloses the outline's vector area plus the walk's -/
noncomputable section
open Shoelace

/-- **the bridge encloses nothing**: for the outline `l₁ ++ e :: l₂` and a closed walk `w₀ :: w ++ [w₀]` spliced in at `e`
    (`e → w₀ … w₀ → e`), twice the vector area of the merged outline is that of the outline plus that of the walk -/
theorem merge_vector_area (l1 l2 w : List (V3 ℝ)) (e w0 : V3 ℝ) :
    cyc (l1 ++ e :: (w0 :: w ++ [w0]) ++ e :: l2) = cyc (l1 ++ e :: l2) + cyc (w0 :: w) := by
  cases l1 with
  | nil =>
    show pathSum (e :: (w0 :: w ++ [w0]) ++ e :: l2 ++ [e]) = pathSum (e :: l2 ++ [e]) + pathSum (w0 :: w ++ [w0])
    have := pathSum_bridge [] (l2 ++ [e]) w e w0
    simpa using this
  | cons a t =>
    show pathSum (a :: t ++ e :: (w0 :: w ++ [w0]) ++ e :: l2 ++ [a]) = pathSum (a :: t ++ e :: l2 ++ [a]) + pathSum (w0 :: w ++ [w0])
    have := pathSum_bridge (a :: t) (l2 ++ [a]) w e w0
    simpa using this

/-- a hole walked against its own orientation contributes minus its vector area: net area -/
theorem walk_reversed_area (hole : List (V3 ℝ)) : cyc hole.reverse = -(cyc hole) := cyc_reverse hole

end
end G3d.C12
