import G3d.Model.Loop
/-!
# C04 — loops admit exactly planar, non-self-crossing outlines (structure of `push` / `close`, every history)

Generic over the scalar type (`[Num α]`: the theorems hold for the hardware-float instance the driver runs, for the
soft-float instances and for ℝ alike), by induction over the history of calls:

* `push_unchanged_of_not_ok`, `close_unchanged_of_not_ok` — a refused `push` / `close` leaves the loop exactly as it was.
* `push_closed_refused` — adding to a closed loop is refused.
* `push_noPanic`, `close_noPanic`, `history_noPanic` — no sequence of `push`/`close` calls, on any points whatsoever
  (NaN, repeated, …), panics: every index the code uses is in bounds and the internal loops end within their bound.
* `push_ok_shape` — an accepted `push` leaves a prefix of the old outline, plus the point unless it repeats the last vertex.
* `NoRedundant` (no three consecutive vertices that `is_collinear` calls collinear/coincident) is an invariant of every
  history (`history_noRedundant`), and a successful `close` extends it around the seam (`close_ok_cyclic`): together,
  **a closed loop has at least three vertices and no vertex that the library's own predicate calls collinear with its
  two neighbours** (`closed_loop_wellformed`).
The geometric half (what `valid_to_add` refuses over ℝ) is in `G3d.Props.C04Real`.
-/
namespace G3d.C04
open G3d Num
set_option linter.unusedSectionVars false
variable {α : Type} [Num α]

/-- "is not a panic" -/
def NoPanic {β : Type} (r : Res β) : Prop := ∀ s, r ≠ .panic s

theorem noPanic_ok {β : Type} (b : β) : NoPanic (Res.ok b) := by intro s h; cases h
theorem noPanic_err {β : Type} (e : String) : NoPanic (Res.err e : Res β) := by intro s h; cases h

theorem vget_lt {vs : List (V3 α)} {i : Nat} (h : i < vs.length) (site : String) :
    vget vs i site = .ok vs[i] := by
  simp [vget, List.getElem?_eq_getElem h]

/-! ## `valid_to_add` never panics -/

theorem validToAddLoop_noPanic (vs : List (V3 α)) (e : Segment α) :
    ∀ (fuel i : Nat), i + fuel + 1 ≤ vs.length ∨ fuel = 0 → NoPanic (Loop.validToAddLoop vs e fuel i) := by
  intro fuel
  induction fuel with
  | zero => intro i _; simp [Loop.validToAddLoop]; exact noPanic_ok ()
  | succ f ih =>
    intro i h
    have h' : i + f + 2 ≤ vs.length := by
      rcases h with h | h
      · omega
      · omega
    have h1 : i < vs.length := by omega
    have h2 : i + 1 < vs.length := by omega
    simp only [Loop.validToAddLoop, vget_lt h1, vget_lt h2, bind, Res.bind]
    split
    · exact noPanic_err _
    · apply ih; left; omega

theorem isCoplanar_noPanic (l : Loop α) (p : V3 α) : NoPanic (l.isCoplanar p) := by
  unfold Loop.isCoplanar
  split
  · exact noPanic_err _
  · split
    · exact noPanic_err _
    · exact noPanic_ok _

theorem validToAdd_noPanic (l : Loop α) (p : V3 α) : NoPanic (l.validToAdd p) := by
  unfold Loop.validToAdd
  split
  · exact noPanic_err _
  · have hc := isCoplanar_noPanic l p
    have hrest : NoPanic (if 3 ≤ l.vertices.length then do
          let lastV ← vget l.vertices (l.vertices.length - 1) "loop3d.rs:valid_to_add:last_v"
          let newEdge := Segment.new lastV p
          Loop.validToAddLoop l.vertices newEdge (l.vertices.length - 2) 0
        else (Res.ok () : Res Unit)) := by
      split
      · rename_i hn
        have h1 : l.vertices.length - 1 < l.vertices.length := by omega
        simp only [vget_lt h1, bind, Res.bind]
        apply validToAddLoop_noPanic
        left; omega
      · exact noPanic_ok _
    by_cases hz : (!l.normal.isZero) = true
    · simp only [hz, if_true]
      cases hcp : l.isCoplanar p with
      | ok b => cases b <;> simp only [] <;> first | exact noPanic_err _ | exact hrest
      | err e => exact noPanic_err _
      | panic q => exact absurd hcp (hc q)
    · simp only [hz]
      exact hrest

/-! ## what `valid_to_add` accepts -/

theorem validToAddLoop_ok_iff (vs : List (V3 α)) (e : Segment α) :
    ∀ (fuel i : Nat), i + fuel + 1 ≤ vs.length →
      (Loop.validToAddLoop vs e fuel i = .ok () ↔
        ∀ j (_ : i ≤ j ∧ j < i + fuel) (h1 : j + 1 < vs.length),
          e.intersect (Segment.new vs[j] vs[j + 1]) = none) := by
  intro fuel
  induction fuel with
  | zero =>
    intro i _
    simp only [Loop.validToAddLoop, true_iff]
    intro j hj; omega
  | succ f ih =>
    intro i h
    have h1 : i < vs.length := by omega
    have h2 : i + 1 < vs.length := by omega
    simp only [Loop.validToAddLoop, vget_lt h1, vget_lt h2, bind, Res.bind]
    cases hint : e.intersect (Segment.new vs[i] vs[i + 1]) with
    | some pt =>
      simp only [Option.isSome_some, if_true]
      constructor
      · intro hc; cases hc
      · intro hall
        have := hall i ⟨Nat.le_refl _, by omega⟩ h2
        rw [hint] at this; cases this
    | none =>
      simp only [Option.isSome_none, Bool.false_eq_true, if_false]
      rw [ih (i + 1) (by omega)]
      constructor
      · intro hall j hj hj1
        by_cases hji : j = i
        · subst hji; exact hint
        · exact hall j ⟨by omega, by omega⟩ hj1
      · intro hall j hj hj1
        exact hall j ⟨by omega, by omega⟩ hj1

/-- **what `valid_to_add` accepts, exactly**: the loop is open; if a plane is known (cached normal not zero) the point passes
    the coplanarity test; and with three or more vertices the edge from the last vertex to the point does not `intersect`
    any earlier edge `(v[j], v[j+1])`, `j < n − 2` (the last edge, which it touches, is not tested) -/
theorem validToAdd_ok_iff (l : Loop α) (p : V3 α) :
    l.validToAdd p = .ok () ↔
      l.closed = false ∧
      (l.normal.isZero = false → l.isCoplanar p = .ok true) ∧
      (∀ (h3 : 3 ≤ l.vertices.length) j (hj : j < l.vertices.length - 2),
        (Segment.new (l.vertices[l.vertices.length - 1]) p).intersect
          (Segment.new (l.vertices[j]'(by omega)) (l.vertices[j + 1]'(by omega))) = none) := by
  unfold Loop.validToAdd
  by_cases hc : l.closed = true
  · simp [hc]
  · have hc' : l.closed = false := by simpa using hc
    simp only [hc, if_false, Bool.false_eq_true]
    have hrest : ((if 3 ≤ l.vertices.length then do
          let lastV ← vget l.vertices (l.vertices.length - 1) "loop3d.rs:valid_to_add:last_v"
          let newEdge := Segment.new lastV p
          Loop.validToAddLoop l.vertices newEdge (l.vertices.length - 2) 0
        else (Res.ok () : Res Unit)) = .ok ()) ↔
        (∀ (h3 : 3 ≤ l.vertices.length) j (hj : j < l.vertices.length - 2),
          (Segment.new (l.vertices[l.vertices.length - 1]) p).intersect
            (Segment.new (l.vertices[j]'(by omega)) (l.vertices[j + 1]'(by omega))) = none) := by
      by_cases h3 : 3 ≤ l.vertices.length
      · have h1 : l.vertices.length - 1 < l.vertices.length := by omega
        simp only [h3, if_true, vget_lt h1, bind, Res.bind]
        rw [validToAddLoop_ok_iff l.vertices _ (l.vertices.length - 2) 0 (by omega)]
        constructor
        · intro hall _ j hj; exact hall j ⟨Nat.zero_le _, by omega⟩ (by omega)
        · intro hall j hj hj1; exact hall trivial j (by omega)
      · simp only [h3, if_false, true_iff]
        intro h3'; exact absurd h3' (by simp)
    by_cases hz : l.normal.isZero = true
    · simp only [hz, Bool.not_true, Bool.false_eq_true, if_false]
      rw [hrest]
      simp
    · have hz' : l.normal.isZero = false := by simpa using hz
      simp only [hz', Bool.not_false, if_true]
      cases hcp : l.isCoplanar p with
      | ok b =>
        cases b with
        | true => simp only []; rw [hrest]; simp
        | false => simp
      | err e => simp
      | panic q => simp

/-! ## the vertex-dropping loop of `push` -/

/-- no two consecutive vertices coincide and no three consecutive vertices are collinear, as judged by the library's own
    `compare` / `is_collinear` (the form in which the crate can guarantee "no redundant vertex") -/
def NoRedundant (vs : List (V3 α)) : Prop :=
  (∀ i (h : i + 1 < vs.length), vs[i].compare vs[i + 1] = false) ∧
  (∀ i (h : i + 2 < vs.length), (vs[i].isCollinear vs[i + 1] vs[i + 2]).getD true = false)

theorem noRedundant_nil : NoRedundant ([] : List (V3 α)) := by
  constructor <;> intro i h <;> simp at h

theorem noRedundant_prefix {vs ws : List (V3 α)} (hp : ws <+: vs) (h : NoRedundant vs) : NoRedundant ws := by
  obtain ⟨t, rfl⟩ := hp
  constructor
  · intro i hi
    have := h.1 i (by simp; omega)
    simpa [List.getElem_append_left (show i < ws.length by omega),
      List.getElem_append_left (show i + 1 < ws.length by omega)] using this
  · intro i hi
    have := h.2 i (by simp; omega)
    simpa [List.getElem_append_left (show i < ws.length by omega),
      List.getElem_append_left (show i + 1 < ws.length by omega),
      List.getElem_append_left (show i + 2 < ws.length by omega)] using this

theorem noRedundant_tail {v : V3 α} {vs : List (V3 α)} (h : NoRedundant (v :: vs)) : NoRedundant vs := by
  constructor
  · intro i hi
    have := h.1 (i + 1) (by simp; omega)
    simpa using this
  · intro i hi
    have := h.2 (i + 1) (by simp; omega)
    simpa using this

/-- what the exit of the dropping loop guarantees about the point still to be appended -/
def FitsAfter (vs : List (V3 α)) (p : V3 α) : Prop :=
  (∀ (h : 0 < vs.length), vs[vs.length - 1].compare p = false) ∧
  (∀ (h : 1 < vs.length), (vs[vs.length - 2].isCollinear vs[vs.length - 1] p).getD true = false)

theorem noRedundant_append {vs : List (V3 α)} {p : V3 α} (h : NoRedundant vs) (hf : FitsAfter vs p) :
    NoRedundant (vs ++ [p]) := by
  constructor
  · intro i hi
    simp at hi
    by_cases hlast : i + 1 < vs.length
    · have := h.1 i hlast
      simpa [List.getElem_append_left (show i < vs.length by omega), List.getElem_append_left hlast] using this
    · have hi' : i = vs.length - 1 := by omega
      have hpos : 0 < vs.length := by omega
      have := hf.1 hpos
      subst hi'
      have e1 : (vs ++ [p])[vs.length - 1 + 1]'(by simp; omega) = p := by
        rw [List.getElem_append_right (by omega)]; simp
      rw [e1, List.getElem_append_left (by omega)]
      exact this
  · intro i hi
    simp at hi
    by_cases hlast : i + 2 < vs.length
    · have := h.2 i hlast
      simpa [List.getElem_append_left (show i < vs.length by omega),
        List.getElem_append_left (show i + 1 < vs.length by omega), List.getElem_append_left hlast] using this
    · have hi' : i = vs.length - 2 := by omega
      have hpos : 1 < vs.length := by omega
      have := hf.2 hpos
      subst hi'
      have e1 : (vs ++ [p])[vs.length - 2 + 2]'(by simp; omega) = p := by
        rw [List.getElem_append_right (by omega)]; simp
      have e2 : (vs ++ [p])[vs.length - 2 + 1]'(by simp; omega) = vs[vs.length - 1] := by
        rw [List.getElem_append_left (by omega)]; congr 1; omega
      rw [e1, e2, List.getElem_append_left (by omega)]
      exact this

/-- **the dropping loop of `push` always ends within its bound, never panics or errs, leaves a prefix of the outline,
    and on exit either the last vertex repeats the point or the point fits after it** -/
theorem pushDrop_spec (p : V3 α) :
    ∀ (fuel : Nat) (vs : List (V3 α)) (nrm : V3 α), vs.length + 1 ≤ fuel →
      ∃ vs' nrm' b, Loop.pushDrop p fuel vs nrm = .ok (vs', nrm', b) ∧ vs' <+: vs ∧
        (b = false → 0 < vs'.length) ∧ (b = true → FitsAfter vs' p) ∧
        (vs'.length = vs.length → nrm' = nrm) := by
  intro fuel
  induction fuel with
  | zero => intro vs nrm h; omega
  | succ f ih =>
    intro vs nrm hf
    unfold Loop.pushDrop
    by_cases h1 : 1 ≤ vs.length
    · have hl : vs.length - 1 < vs.length := by omega
      simp only [h1, if_true, vget_lt hl, bind, Res.bind, pure]
      cases hrep : vs[vs.length - 1].compare p with
      | true =>
        exact ⟨vs, nrm, false, rfl, List.prefix_refl _, fun _ => by omega, (fun h => by cases h), fun _ => rfl⟩
      | false =>
        simp only []
        by_cases h2 : 2 ≤ vs.length
        · have hl2 : vs.length - 2 < vs.length := by omega
          simp only [h2, if_true, vget_lt hl2]
          cases hcol : (vs[vs.length - 2].isCollinear vs[vs.length - 1] p).getD true with
          | true =>
            simp only [if_true]
            obtain ⟨vs', nrm', b, he, hp, hb1, hb2, _⟩ :=
              ih vs.dropLast (if vs.dropLast.length < 3 then ⟨0, 0, 0⟩ else nrm) (by simp; omega)
            refine ⟨vs', nrm', b, he, hp.trans (List.dropLast_prefix vs), hb1, hb2, ?_⟩
            intro hlen
            have := hp.length_le
            simp at this
            omega
          | false =>
            simp only [Bool.false_eq_true, if_false]
            exact ⟨vs, nrm, true, rfl, List.prefix_refl _, (fun h => by cases h), (fun _ => ⟨fun _ => hrep, fun _ => hcol⟩), fun _ => rfl⟩
        · simp only [h2, if_false]
          exact ⟨vs, nrm, true, rfl, List.prefix_refl _, (fun h => by cases h), (fun _ => ⟨fun _ => hrep, fun h => by omega⟩), fun _ => rfl⟩
    · have h0 : vs = [] := by
        cases vs with
        | nil => rfl
        | cons a t => simp at h1
      subst h0
      simp only [List.length_nil, if_false, pure, show ¬ (2 ≤ 0) by omega]
      exact ⟨[], nrm, true, rfl, List.prefix_refl _, (fun h => by cases h),
        (fun _ => ⟨fun h => by simp at h, fun h => by simp at h⟩), fun _ => rfl⟩

theorem setNormal_of_length_three (l : Loop α) (h : l.vertices.length = 3) :
    ∃ nrm, l.setNormal = ({ l with normal := nrm }, .ok ()) := by
  unfold Loop.setNormal
  match hv : l.vertices, h with
  | [a, b, c], _ => exact ⟨_, rfl⟩

/-- **every way `push` can end**: refused by `valid_to_add` (loop untouched), or accepted with a prefix of the old outline,
    plus the point unless it repeats the new last vertex; only `vertices` and `normal` change -/
theorem push_cases (l : Loop α) (p : V3 α) :
    (∃ e, l.validToAdd p = .err e ∧ l.push p = (l, .err e)) ∨
    (∃ q, l.validToAdd p = .panic q ∧ l.push p = (l, .panic q)) ∨
    (l.validToAdd p = .ok () ∧ ∃ vs' nrm', vs' <+: l.vertices ∧
      ((0 < vs'.length ∧ l.push p = ({ l with vertices := vs', normal := nrm' }, .ok ())) ∨
       (FitsAfter vs' p ∧ l.push p = ({ l with vertices := vs' ++ [p], normal := nrm' }, .ok ())))) := by
  unfold Loop.push
  cases hv : l.validToAdd p with
  | err e => exact Or.inl ⟨e, rfl, rfl⟩
  | panic q => exact Or.inr (Or.inl ⟨q, rfl, rfl⟩)
  | ok u =>
    refine Or.inr (Or.inr ⟨rfl, ?_⟩)
    obtain ⟨vs', nrm', b, he, hp, hb1, hb2, _⟩ :=
      pushDrop_spec p (l.vertices.length + 1) l.vertices l.normal (Nat.le_refl _)
    simp only [he]
    cases b with
    | false => exact ⟨vs', nrm', hp, Or.inl ⟨hb1 rfl, rfl⟩⟩
    | true =>
      simp only []
      by_cases h3 : (vs' ++ [p]).length = 3
      · obtain ⟨nrm, hn⟩ := setNormal_of_length_three { l with vertices := vs' ++ [p], normal := nrm' } h3
        have h3' : ((vs' ++ [p]).length == 3) = true := by simp [h3]
        simp only [h3', if_true, hn]
        exact ⟨vs', nrm, hp, Or.inr ⟨hb2 rfl, rfl⟩⟩
      · have h3' : ((vs' ++ [p]).length == 3) = false := by
          simp only [beq_eq_false_iff_ne, ne_eq]; exact h3
        simp only [h3', Bool.false_eq_true, if_false]
        exact ⟨vs', nrm', hp, Or.inr ⟨hb2 rfl, rfl⟩⟩

/-- **an accepted `push` passed `valid_to_add`** (so: open loop, in-plane point, edge clear of every earlier edge), and a
    point failing any of the three is refused with the loop unchanged -/
theorem push_ok_iff_valid (l : Loop α) (p : V3 α) : (l.push p).2 = .ok () ↔ l.validToAdd p = .ok () := by
  rcases push_cases l p with ⟨e, hv, he⟩ | ⟨q, hv, hq⟩ | ⟨hv, vs', nrm', _, ⟨_, hh⟩ | ⟨_, hh⟩⟩
  · rw [he, hv]
  · rw [hq, hv]
  · rw [hh, hv]
  · rw [hh, hv]

/-- **a refused `push` (an `Err` or a panic) leaves the loop exactly as it was** -/
theorem push_unchanged_of_not_ok (l : Loop α) (p : V3 α) (h : (l.push p).2 ≠ .ok ()) : (l.push p).1 = l := by
  rcases push_cases l p with ⟨e, _, he⟩ | ⟨q, _, hq⟩ | ⟨_, vs', nrm', _, ⟨_, hh⟩ | ⟨_, hh⟩⟩
  · rw [he]
  · rw [hq]
  · rw [hh] at h; exact absurd rfl h
  · rw [hh] at h; exact absurd rfl h

/-- **adding to a closed loop is refused** -/
theorem push_closed_refused (l : Loop α) (p : V3 α) (h : l.closed = true) :
    l.push p = (l, .err "loop3d.rs:valid_to_add:closed") := by
  simp [Loop.push, Loop.validToAdd, h]

/-- **`push` never panics**, whatever the loop and the point -/
theorem push_noPanic (l : Loop α) (p : V3 α) : NoPanic (l.push p).2 := by
  rcases push_cases l p with ⟨e, _, he⟩ | ⟨q, hq, _⟩ | ⟨_, vs', nrm', _, ⟨_, hh⟩ | ⟨_, hh⟩⟩
  · rw [he]; exact noPanic_err _
  · exact absurd hq (validToAdd_noPanic l p q)
  · rw [hh]; exact noPanic_ok _
  · rw [hh]; exact noPanic_ok _

/-- `push` never touches the `closed` flag, and an accepted `push` happened on an open loop -/
theorem push_closed_eq (l : Loop α) (p : V3 α) : (l.push p).1.closed = l.closed := by
  rcases push_cases l p with ⟨e, _, he⟩ | ⟨q, _, hq⟩ | ⟨_, vs', nrm', _, ⟨_, hh⟩ | ⟨_, hh⟩⟩ <;> simp [*]

/-- `push` keeps `NoRedundant` -/
theorem push_noRedundant (l : Loop α) (p : V3 α) (h : NoRedundant l.vertices) : NoRedundant (l.push p).1.vertices := by
  rcases push_cases l p with ⟨e, _, he⟩ | ⟨q, _, hq⟩ | ⟨_, vs', nrm', hp, ⟨_, hh⟩ | ⟨hf, hh⟩⟩
  · rw [he]; exact h
  · rw [hq]; exact h
  · rw [hh]; exact noRedundant_prefix hp h
  · rw [hh]; exact noRedundant_append (noRedundant_prefix hp h) hf

/-! ## `close` -/

/-- neither end of the seam is redundant: `(v[n-2], v[n-1], v[0])` and `(v[n-1], v[0], v[1])` are not collinear for
    `is_collinear` -/
def Seam (vs : List (V3 α)) : Prop :=
  ∃ (h : 3 ≤ vs.length),
    vs[vs.length - 2].isCollinear vs[vs.length - 1] vs[0] = some false ∧
    vs[vs.length - 1].isCollinear vs[0] vs[1] = some false

theorem isCollinearR_cases (a b c : V3 α) :
    (a.isCollinear b c = none ∧ a.isCollinearR b c = .err "point3d.rs:is_collinear:three-equal-points") ∨
    (∃ r, a.isCollinear b c = some r ∧ a.isCollinearR b c = .ok r) := by
  unfold V3.isCollinearR
  cases a.isCollinear b c with
  | none => exact Or.inl ⟨rfl, rfl⟩
  | some r => exact Or.inr ⟨r, rfl, rfl⟩

theorem closeSeam_spec :
    ∀ (fuel : Nat) (vs : List (V3 α)), vs.length < fuel →
      NoPanic (Loop.closeSeam fuel vs) ∧
      ∀ vs', Loop.closeSeam fuel vs = .ok vs' →
        Seam vs' ∧ (NoRedundant vs → NoRedundant vs') ∧ vs'.length ≤ vs.length := by
  intro fuel
  induction fuel with
  | zero => intro vs h; omega
  | succ f ih =>
    intro vs hf
    unfold Loop.closeSeam
    by_cases h3 : vs.length < 3
    · simp only [h3, if_true]
      exact ⟨noPanic_err _, fun vs' h => by cases h⟩
    · have hn : 3 ≤ vs.length := by omega
      have hl2 : vs.length - 2 < vs.length := by omega
      have hl1 : vs.length - 1 < vs.length := by omega
      have hl0 : 0 < vs.length := by omega
      have hl1' : 1 < vs.length := by omega
      simp only [h3, if_false, vget_lt hl2, vget_lt hl1, vget_lt hl0, vget_lt hl1', bind, Res.bind]
      rcases isCollinearR_cases vs[vs.length - 2] vs[vs.length - 1] vs[0] with ⟨_, hr⟩ | ⟨r, hr0, hr⟩
      · rw [hr]; exact ⟨noPanic_err _, fun vs' h => by cases h⟩
      · rw [hr]
        cases r with
        | true =>
          simp only [if_true]
          obtain ⟨hnp, hsp⟩ := ih vs.dropLast (by simp; omega)
          refine ⟨hnp, fun vs' h => ?_⟩
          obtain ⟨hs, hr', hlen⟩ := hsp vs' h
          refine ⟨hs, fun hnr => hr' (noRedundant_prefix (List.dropLast_prefix vs) hnr), ?_⟩
          simp at hlen; omega
        | false =>
          simp only [Bool.false_eq_true, if_false]
          rcases isCollinearR_cases vs[vs.length - 1] vs[0] vs[1] with ⟨_, hr2⟩ | ⟨r2, hr20, hr2⟩
          · rw [hr2]; exact ⟨noPanic_err _, fun vs' h => by cases h⟩
          · rw [hr2]
            cases r2 with
            | true =>
              simp only [if_true]
              obtain ⟨hnp, hsp⟩ := ih (vs.eraseIdx 0) (by rw [List.length_eraseIdx]; simp [hl0]; omega)
              refine ⟨hnp, fun vs' h => ?_⟩
              obtain ⟨hs, hr', hlen⟩ := hsp vs' h
              refine ⟨hs, fun hnr => hr' ?_, ?_⟩
              · cases vs with
                | nil => simp at hl0
                | cons v t => simpa using noRedundant_tail hnr
              · rw [List.length_eraseIdx] at hlen; simp [hl0] at hlen; omega
            | false =>
              simp only [Bool.false_eq_true, if_false]
              refine ⟨noPanic_ok _, fun vs' h => ?_⟩
              cases h
              exact ⟨⟨hn, hr0, hr20⟩, fun h => h, Nat.le_refl _⟩

theorem setAreaLoop_noPanic (vs : List (V3 α)) (n : Nat) (hn : n = vs.length) (hpos : 0 < n) :
    ∀ (fuel i : Nat) (rhs v w : V3 α), NoPanic (Loop.setAreaLoop vs n fuel i rhs v w) := by
  intro fuel
  induction fuel with
  | zero => intro i rhs v w; simp [Loop.setAreaLoop]; exact noPanic_ok _
  | succ f ih =>
    intro i rhs v w
    have : i % n < vs.length := by rw [← hn]; exact Nat.mod_lt _ hpos
    simp only [Loop.setAreaLoop, vget_lt this, bind, Res.bind]
    exact ih _ _ _ _

theorem setPerimeterLoop_noPanic (vs : List (V3 α)) (n : Nat) (hn : n = vs.length) (hpos : 0 < n) :
    ∀ (fuel i : Nat) (per : α), NoPanic (Loop.setPerimeterLoop vs n fuel i per) := by
  intro fuel
  induction fuel with
  | zero => intro i per; simp [Loop.setPerimeterLoop]; exact noPanic_ok _
  | succ f ih =>
    intro i per
    have h1 : i % n < vs.length := by rw [← hn]; exact Nat.mod_lt _ hpos
    have h2 : (i + 1) % n < vs.length := by rw [← hn]; exact Nat.mod_lt _ hpos
    simp only [Loop.setPerimeterLoop, vget_lt h1, vget_lt h2, bind, Res.bind]
    exact ih _ _

/-- `set_area` never panics and only writes `normal` and `area` -/
theorem setArea_spec (l : Loop α) :
    NoPanic l.setArea.2 ∧ l.setArea.1.vertices = l.vertices ∧ l.setArea.1.closed = l.closed := by
  unfold Loop.setArea
  by_cases h1 : (!l.closed) = true
  · simp only [h1, if_true]; exact ⟨noPanic_err _, by trivial, by trivial⟩
  · simp only [h1]
    by_cases h2 : l.normal.isZero = true
    · simp only [h2, if_true]; exact ⟨noPanic_err _, by trivial, by trivial⟩
    · simp only [h2]
      by_cases h3 : l.vertices.length < 3
      · simp only [h3, if_true]; exact ⟨noPanic_err _, by trivial, by trivial⟩
      · simp only [h3, if_false]
        have hl0 : 0 < l.vertices.length := by omega
        have hl1 : 1 < l.vertices.length := by omega
        simp only [vget_lt hl0, vget_lt hl1, bind, Res.bind]
        have hnp := setAreaLoop_noPanic l.vertices l.vertices.length rfl hl0 l.vertices.length 2 ⟨0.0, 0.0, 0.0⟩
          l.vertices[0] l.vertices[1]
        cases hr : Loop.setAreaLoop l.vertices l.vertices.length l.vertices.length 2 ⟨0.0, 0.0, 0.0⟩
            l.vertices[0] l.vertices[1] with
        | ok rhs => exact ⟨noPanic_ok _, by trivial, by trivial⟩
        | err e => exact ⟨noPanic_err _, by trivial, by trivial⟩
        | panic q => exact absurd hr (hnp q)

/-- `set_perimeter` never panics and only writes `perimeter` -/
theorem setPerimeter_spec (l : Loop α) :
    NoPanic l.setPerimeter.2 ∧ l.setPerimeter.1.vertices = l.vertices ∧ l.setPerimeter.1.closed = l.closed := by
  unfold Loop.setPerimeter
  by_cases h1 : (!l.closed) = true
  · simp only [h1, if_true]; exact ⟨noPanic_err _, by trivial, by trivial⟩
  · simp only [h1]
    by_cases h2 : l.normal.isZero = true
    · simp only [h2, if_true]; exact ⟨noPanic_err _, by trivial, by trivial⟩
    · simp only [h2]
      by_cases h3 : l.vertices.length < 3
      · simp only [h3, if_true]; exact ⟨noPanic_err _, by trivial, by trivial⟩
      · simp only [h3, if_false]
        have hl0 : 0 < l.vertices.length := by omega
        have hnp := setPerimeterLoop_noPanic l.vertices l.vertices.length rfl hl0 l.vertices.length 0 (0.0 : α)
        cases hr : Loop.setPerimeterLoop l.vertices l.vertices.length l.vertices.length 0 (0.0 : α) with
        | ok per => exact ⟨noPanic_ok _, by trivial, by trivial⟩
        | err e => exact ⟨noPanic_err _, by trivial, by trivial⟩
        | panic q => exact absurd hr (hnp q)

/-- **every way `close` can end**: an `Err` with the loop untouched, or `Ok` with the seam-cleaned outline, closed -/
theorem close_cases (l : Loop α) :
    (∃ e, l.close = (l, .err e)) ∨
    (l.close.2 = .ok () ∧ l.close.1.closed = true ∧
      ∃ vs', Loop.closeSeam (l.vertices.length + 1) l.vertices = .ok vs' ∧ l.close.1.vertices = vs') := by
  unfold Loop.close
  by_cases h3 : l.vertices.length < 3
  · simp only [h3, if_true]; exact Or.inl ⟨_, rfl⟩
  · simp only [h3, if_false]
    obtain ⟨hnp, hsp⟩ := closeSeam_spec (l.vertices.length + 1) l.vertices (Nat.lt_succ_self _)
    cases hcs : Loop.closeSeam (l.vertices.length + 1) l.vertices with
    | err e => exact Or.inl ⟨_, rfl⟩
    | panic q => exact absurd hcs (hnp q)
    | ok vs =>
      simp only []
      obtain ⟨⟨hn, _⟩, _, _⟩ := hsp vs hcs
      have hl0 : 0 < vs.length := by omega
      simp only [vget_lt hl0, bind, Res.bind]
      have hva := validToAdd_noPanic { l with vertices := vs } vs[0]
      cases hv : Loop.validToAdd { l with vertices := vs } vs[0] with
      | err e => exact Or.inl ⟨_, rfl⟩
      | panic q => exact absurd hv (hva q)
      | ok u =>
        simp only []
        obtain ⟨hap, hav, hac⟩ := setArea_spec { l with vertices := vs, closed := true }
        cases hsa : Loop.setArea { l with vertices := vs, closed := true } with
        | mk l4 r4 =>
          rw [hsa] at hap hav hac
          cases r4 with
          | err e => exact Or.inl ⟨_, rfl⟩
          | panic q => exact absurd rfl (hap q)
          | ok ar =>
            simp only []
            obtain ⟨hpp, hpv, hpc⟩ := setPerimeter_spec l4
            cases hsp' : Loop.setPerimeter l4 with
            | mk l5 r5 =>
              rw [hsp'] at hpp hpv hpc
              cases r5 with
              | err e => exact Or.inl ⟨_, rfl⟩
              | panic q => exact absurd rfl (hpp q)
              | ok per =>
                simp only []
                simp only [] at hav hac hpv hpc
                exact Or.inr ⟨by trivial, by rw [hpc, hac], vs, rfl, by rw [hpv, hav]⟩

/-- **a refused `close` leaves the loop exactly as it was** -/
theorem close_unchanged_of_not_ok (l : Loop α) (h : l.close.2 ≠ .ok ()) : l.close.1 = l := by
  rcases close_cases l with ⟨e, he⟩ | ⟨hok, _⟩
  · rw [he]
  · exact absurd hok h

/-- **`close` never panics** -/
theorem close_noPanic (l : Loop α) : NoPanic l.close.2 := by
  rcases close_cases l with ⟨e, he⟩ | ⟨hok, _⟩
  · rw [he]; exact noPanic_err _
  · rw [hok]; exact noPanic_ok _

/-- cyclic form of "no redundant vertex": for every vertex `i` of a closed outline with `n` vertices, the triple
    `(v[i], v[(i+1) % n], v[(i+2) % n])` is not collinear/coincident for the library's predicate -/
def CyclicNoRedundant (vs : List (V3 α)) : Prop :=
  ∀ i (h : i < vs.length),
    (vs[i].isCollinear (vs[(i + 1) % vs.length]'(Nat.mod_lt _ (by omega)))
      (vs[(i + 2) % vs.length]'(Nat.mod_lt _ (by omega)))).getD true = false

theorem cyclic_of_seam {vs : List (V3 α)} (hs : Seam vs) (hn : NoRedundant vs) : CyclicNoRedundant vs := by
  obtain ⟨h3, hs1, hs2⟩ := hs
  intro i hi
  by_cases h1 : i + 2 < vs.length
  · have := hn.2 i h1
    simpa [Nat.mod_eq_of_lt h1, Nat.mod_eq_of_lt (show i + 1 < vs.length by omega)] using this
  · by_cases h2 : i + 2 = vs.length
    · have e1 : (i + 2) % vs.length = 0 := by rw [h2]; exact Nat.mod_self _
      have e2 : (i + 1) % vs.length = vs.length - 1 := by rw [Nat.mod_eq_of_lt (by omega)]; omega
      have e0 : i = vs.length - 2 := by omega
      simp only [e1, e2]
      subst e0
      rw [hs1]; rfl
    · have e0 : i = vs.length - 1 := by omega
      have e1 : (i + 1) % vs.length = 0 := by
        rw [e0, show vs.length - 1 + 1 = vs.length by omega]; exact Nat.mod_self _
      have e2 : (i + 2) % vs.length = 1 := by
        rw [e0, show vs.length - 1 + 2 = vs.length + 1 by omega, Nat.add_mod, Nat.mod_self]
        simp; exact Nat.mod_eq_of_lt (by omega)
      simp only [e1, e2]
      subst e0
      rw [hs2]; rfl

/-- a successful `close` on an outline without redundant vertices gives a closed loop with at least three vertices,
    none of which `is_collinear` calls collinear with its two neighbours -/
theorem close_ok_cyclic (l : Loop α) (hn : NoRedundant l.vertices) (h : l.close.2 = .ok ()) :
    l.close.1.closed = true ∧ 3 ≤ l.close.1.vertices.length ∧ NoRedundant l.close.1.vertices ∧
      CyclicNoRedundant l.close.1.vertices := by
  rcases close_cases l with ⟨e, he⟩ | ⟨_, hc, vs', hcs, hv⟩
  · rw [he] at h; cases h
  · obtain ⟨_, hsp⟩ := closeSeam_spec (l.vertices.length + 1) l.vertices (Nat.lt_succ_self _)
    obtain ⟨hs, hr, _⟩ := hsp vs' hcs
    rw [hv]
    exact ⟨hc, hs.1, hr hn, cyclic_of_seam hs (hr hn)⟩

/-! ## every history -/

/-- one call of the construction API -/
inductive Op (α : Type) where
  | push (p : V3 α)
  | close

/-- the loop a call leaves behind and what it returned -/
def step (l : Loop α) : Op α → Loop α × Res Unit
  | .push p => l.push p
  | .close => l.close

/-- the loop after a sequence of calls (whatever each of them returned) -/
def run (l : Loop α) (ops : List (Op α)) : Loop α := ops.foldl (fun l op => (step l op).1) l

/-- the invariant of every loop the API can build -/
def WellFormed (l : Loop α) : Prop :=
  NoRedundant l.vertices ∧ (l.closed = true → 3 ≤ l.vertices.length ∧ CyclicNoRedundant l.vertices)

theorem wellFormed_new : WellFormed (Loop.new : Loop α) :=
  ⟨noRedundant_nil, fun h => by simp [Loop.new] at h⟩

theorem step_wellFormed (l : Loop α) (op : Op α) (h : WellFormed l) : WellFormed (step l op).1 := by
  cases op with
  | push p =>
    refine ⟨push_noRedundant l p h.1, fun hc => ?_⟩
    have hc' : l.closed = true := by rw [← push_closed_eq l p]; exact hc
    simp only [step]
    rw [push_closed_refused l p hc']
    exact h.2 hc'
  | close =>
    simp only [step]
    by_cases hok : l.close.2 = .ok ()
    · obtain ⟨_, h3, hnr, hcy⟩ := close_ok_cyclic l h.1 hok
      exact ⟨hnr, fun _ => ⟨h3, hcy⟩⟩
    · rw [close_unchanged_of_not_ok l hok]; exact h

/-- **every loop reachable from `Loop3D::new()` by any sequence of `push`/`close` calls — whatever the points, including
    repeated points, NaNs and refused calls — has no redundant vertex, and if it is closed it has at least three vertices
    and no vertex that `is_collinear` calls collinear with its two neighbours** -/
theorem closed_loop_wellformed (ops : List (Op α)) : WellFormed (run (Loop.new : Loop α) ops) := by
  suffices h : ∀ (l : Loop α), WellFormed l → WellFormed (run l ops) from h _ wellFormed_new
  induction ops with
  | nil => intro l h; exact h
  | cons op t ih => intro l h; exact ih _ (step_wellFormed l op h)

/-- **no call of any history panics** (stated for an arbitrary loop, so in particular along every history) -/
theorem history_noPanic (l : Loop α) (op : Op α) : NoPanic (step l op).2 := by
  cases op with
  | push p => exact push_noPanic l p
  | close => exact close_noPanic l

/-- **a refused call leaves the loop unchanged** -/
theorem refused_unchanged (l : Loop α) (op : Op α) (h : (step l op).2 ≠ .ok ()) : (step l op).1 = l := by
  cases op with
  | push p => exact push_unchanged_of_not_ok l p h
  | close => exact close_unchanged_of_not_ok l h

end G3d.C04
