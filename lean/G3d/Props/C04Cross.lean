import G3d.Props.C04Real
import G3d.Props.C19
/-!
# C04 over ℝ — what the crossing gate of `valid_to_add` means (exactly coplanar outlines)

* `intersect_none_of_disjoint` — two coplanar segments without a common point are never reported as crossing.
* `push_accepts_clear` — **every point that keeps the outline planar and non-crossing is accepted**: an open loop, a point
  within the coplanarity gate, and a new edge that has no point in common with any earlier edge (`j < n − 2`) coplanar with it.
* `ipt_complete` / `intersect_of_crossing` — two coplanar, non-parallel segments that meet at parameters `t_a ∈ [0,1)` of the
  first and `t_b ∈ [1e-8, 1 − 1e-8)` of the second are reported as crossing (at those parameters), provided the dominant component
  of `a × b` exceeds `1e-5` (since the repair of `get_intersection_pt` also when the two directions nearly agree);
* `push_refuses_crossing` — hence **a point whose connecting edge properly crosses an earlier edge is refused, and the loop is
  unchanged**.
-/
namespace G3d.C04
open G3d Num C19

noncomputable section

/-- two coplanar segments without a common point are not reported as crossing -/
theorem intersect_none_of_disjoint (s i : Segment ℝ) (hc : (delta s i).dot (nrm s i) = 0)
    (hd : ∀ tA tB : ℝ, 0 ≤ tA → tA ≤ 1 → 0 ≤ tB → tB ≤ 1 → at' s tA ≠ at' i tB) : s.intersect i = none := by
  cases h : s.intersect i with
  | none => rfl
  | some p =>
    exfalso
    obtain ⟨tA, tB, hg, h1, h2, h3, h4, _⟩ := (intersect_iff s i p).mp h
    exact hd tA tB h1 (le_of_lt h2) (by linarith) (by linarith) (ipt_locates_coplanar s i tA tB hg hc)

/-- **every point that keeps the outline planar and non-crossing is accepted** (exactly coplanar outline) -/
theorem push_accepts_clear (l : Loop ℝ) (p v0 : V3 ℝ) (rest : List (V3 ℝ)) (hv : l.vertices = v0 :: rest)
    (hopen : l.closed = false)
    (hplane : l.normal.isZero = false → |l.normal.dot (v0 - p)| < 1e-7)
    (hclear : ∀ (h3 : 3 ≤ l.vertices.length) j (hj : j < l.vertices.length - 2),
        let newEdge := Segment.new (l.vertices[l.vertices.length - 1]) p
        let old := Segment.new (l.vertices[j]'(by omega)) (l.vertices[j + 1]'(by omega))
        (delta newEdge old).dot (nrm newEdge old) = 0 ∧
        ∀ tA tB : ℝ, 0 ≤ tA → tA ≤ 1 → 0 ≤ tB → tB ≤ 1 → at' newEdge tA ≠ at' old tB) :
    (l.push p).2 = .ok () := by
  rw [push_ok_iff_valid, validToAdd_ok_iff]
  refine ⟨hopen, ?_, ?_⟩
  · intro hz
    rw [isCoplanar_real l p v0 rest hv hz]
    congr 1
    simp only [decide_eq_true_eq]
    exact hplane hz
  · intro h3 j hj
    obtain ⟨hc, hd⟩ := hclear h3 j hj
    exact intersect_none_of_disjoint _ _ hc hd

/-- completeness of the 2×2 solve: the true parameters are the ones computed -/
theorem solve2_complete (au av bu bv du dv det tA tB : ℝ) (hdet : det = av * bu - au * bv) (hne : det ≠ 0)
    (e1 : du + au * tA - bu * tB = 0) (e2 : dv + av * tA - bv * tB = 0) :
    (bv * du - bu * dv) / det = tA ∧ (av * du - au * dv) / det = tB := by
  have hu : du = -(au * tA) + bu * tB := by linarith
  have hv : dv = -(av * tA) + bv * tB := by linarith
  constructor
  · rw [div_eq_iff hne, hu, hv, hdet]; ring
  · rw [div_eq_iff hne, hu, hv, hdet]; ring

/-- **`get_intersection_pt` finds every transversal meeting point of two coplanar segments**: if the segments meet at
    parameters `(t_a, t_b)` and the dominant component of `a × b` exceeds `1e-5`, it returns exactly `(t_a, t_b)` -/
theorem ipt_complete (s i : Segment ℝ) (tA tB : ℝ) (hmeet : at' s tA = at' i tB)
    (hbig : 1e-5 < |(nrm s i).x| ∨ 1e-5 < |(nrm s i).y| ∨ 1e-5 < |(nrm s i).z|) :
    s.getIntersectionPt i = some (tA, tB) := by
  obtain ⟨s0, s1, sl⟩ := s
  obtain ⟨i0, i1, il⟩ := i
  simp only [at', nrm] at hmeet hbig
  -- component equations of the meeting point
  have ex : (s0 - i0).x + (s1 - s0).x * tA - (i1 - i0).x * tB = 0 := by
    have := congrArg V3.x hmeet; vec_real_at this; vec_real; linarith
  have ey : (s0 - i0).y + (s1 - s0).y * tA - (i1 - i0).y * tB = 0 := by
    have := congrArg V3.y hmeet; vec_real_at this; vec_real; linarith
  have ez : (s0 - i0).z + (s1 - s0).z * tA - (i1 - i0).z * tB = 0 := by
    have := congrArg V3.z hmeet; vec_real_at this; vec_real; linarith
  -- the lines are coplanar: δ·n = 0
  have hcop : (s0 - i0).dot ((s1 - s0).cross (i1 - i0)) = 0 := by
    have hx : (s0 - i0).x = -((s1 - s0).x * tA) + (i1 - i0).x * tB := by linarith
    have hy : (s0 - i0).y = -((s1 - s0).y * tA) + (i1 - i0).y * tB := by linarith
    have hz : (s0 - i0).z = -((s1 - s0).z * tA) + (i1 - i0).z * tB := by linarith
    simp only [V3.dot, V3.cross]; num_real
    rw [hx, hy, hz]; ring
  have nzdef : ((s1 - s0).cross (i1 - i0)).z = (s1 - s0).x * (i1 - i0).y - (s1 - s0).y * (i1 - i0).x := by
    simp only [V3.cross]
  have nxdef : ((s1 - s0).cross (i1 - i0)).x = (s1 - s0).y * (i1 - i0).z - (s1 - s0).z * (i1 - i0).y := by
    simp only [V3.cross]
  have nydef : ((s1 - s0).cross (i1 - i0)).y = (s1 - s0).z * (i1 - i0).x - (s1 - s0).x * (i1 - i0).z := by
    simp only [V3.cross]
  have hlen : 0 ≤ ((s1 - s0).cross (i1 - i0)).length := by simp only [V3.length, real_sqrt]; exact Real.sqrt_nonneg _
  unfold Segment.getIntersectionPt
  simp only []
  split_ifs with k2 k3 k4 k5
  · exfalso
    simp only [real_gt_dec, decide_eq_true_eq] at k2; num_real_at k2
    rw [hcop, abs_zero] at k2
    have : (0:ℝ) ≤ 1e-5 * ((s1 - s0).cross (i1 - i0)).length := by positivity
    linarith
  · simp only [real_gt_dec, real_ge_dec, Bool.and_eq_true, decide_eq_true_eq] at k3; num_real_at k3
    have hne : (s1 - s0).y * (i1 - i0).x - (s1 - s0).x * (i1 - i0).y ≠ 0 := by
      intro h0
      have : ((s1 - s0).cross (i1 - i0)).z = 0 := by rw [nzdef]; linarith
      rw [this] at k3; norm_num at k3
    obtain ⟨r1, r2⟩ := solve2_complete _ _ _ _ _ _ _ tA tB rfl hne ex ey
    num_real
    rw [r1, r2]
  · simp only [real_gt_dec, real_ge_dec, Bool.and_eq_true, decide_eq_true_eq] at k4; num_real_at k4
    have hne : (s1 - s0).y * (i1 - i0).z - (s1 - s0).z * (i1 - i0).y ≠ 0 := by
      intro h0
      have : ((s1 - s0).cross (i1 - i0)).x = 0 := by rw [nxdef]; linarith
      rw [this] at k4; norm_num at k4
    obtain ⟨r1, r2⟩ := solve2_complete (s1 - s0).z (s1 - s0).y (i1 - i0).z (i1 - i0).y (s0 - i0).z (s0 - i0).y _ tA tB rfl hne ez ey
    num_real
    rw [r1, r2]
  · simp only [real_gt_dec, decide_eq_true_eq] at k5; num_real_at k5
    have hne : (s1 - s0).x * (i1 - i0).z - (s1 - s0).z * (i1 - i0).x ≠ 0 := by
      intro h0
      have : ((s1 - s0).cross (i1 - i0)).y = 0 := by rw [nydef]; linarith
      rw [this] at k5; norm_num at k5
    obtain ⟨r1, r2⟩ := solve2_complete (s1 - s0).z (s1 - s0).x (i1 - i0).z (i1 - i0).x (s0 - i0).z (s0 - i0).x _ tA tB rfl hne ez ex
    num_real
    rw [r1, r2]
  · -- some component is the dominant one and exceeds 1e-5
    exfalso
    simp only [real_gt_dec, real_ge_dec, Bool.and_eq_true, decide_eq_true_eq] at k3 k4 k5
    num_real_at k3; num_real_at k4; num_real_at k5
    rcases hbig with hx | hy | hz
    · by_cases hzc : |((s1 - s0).cross (i1 - i0)).x| ≤ |((s1 - s0).cross (i1 - i0)).z|
          ∧ |((s1 - s0).cross (i1 - i0)).y| ≤ |((s1 - s0).cross (i1 - i0)).z|
      · exact k3 ⟨⟨lt_of_lt_of_le hx hzc.1, hzc.1⟩, hzc.2⟩
      · by_cases hxy : |((s1 - s0).cross (i1 - i0)).y| ≤ |((s1 - s0).cross (i1 - i0)).x|
        · exact k4 ⟨hx, hxy⟩
        · push Not at hxy; exact k5 (lt_trans hx hxy)
    · exact k5 hy
    · by_cases hzc : |((s1 - s0).cross (i1 - i0)).x| ≤ |((s1 - s0).cross (i1 - i0)).z|
          ∧ |((s1 - s0).cross (i1 - i0)).y| ≤ |((s1 - s0).cross (i1 - i0)).z|
      · exact k3 ⟨⟨hz, hzc.1⟩, hzc.2⟩
      · by_cases hxy : |((s1 - s0).cross (i1 - i0)).y| ≤ |((s1 - s0).cross (i1 - i0)).x|
        · have : 1e-5 < |((s1 - s0).cross (i1 - i0)).x| := by
            by_contra hh; push Not at hh
            apply hzc; constructor <;> linarith
          exact k4 ⟨this, hxy⟩
        · push Not at hxy
          have : 1e-5 < |((s1 - s0).cross (i1 - i0)).y| := by
            by_contra hh; push Not at hh
            apply hzc; constructor <;> linarith
          exact k5 this

/-- two coplanar segments that meet transversally at interior parameters are reported as crossing -/
theorem intersect_of_crossing (s i : Segment ℝ) (tA tB : ℝ) (hmeet : at' s tA = at' i tB)
    (hbig : 1e-5 < |(nrm s i).x| ∨ 1e-5 < |(nrm s i).y| ∨ 1e-5 < |(nrm s i).z|)
    (h1 : 0 ≤ tA) (h2 : tA < 1) (h3 : 1e-8 ≤ tB) (h4 : tB < 1 - 1e-8) :
    s.intersect i = some (at' s tA) :=
  (intersect_iff s i _).mpr ⟨tA, tB, ipt_complete s i tA tB hmeet hbig, h1, h2, h3, h4, rfl⟩

/-- **a point whose connecting edge properly crosses an earlier edge is refused, and the loop is unchanged** -/
theorem push_refuses_crossing (l : Loop ℝ) (p : V3 ℝ) (h3 : 3 ≤ l.vertices.length) (j : Nat) (hj : j < l.vertices.length - 2)
    (tA tB : ℝ)
    (hcross : let newEdge := Segment.new (l.vertices[l.vertices.length - 1]) p
              let old := Segment.new (l.vertices[j]'(by omega)) (l.vertices[j + 1]'(by omega))
              at' newEdge tA = at' old tB ∧
              (1e-5 < |(nrm newEdge old).x| ∨ 1e-5 < |(nrm newEdge old).y| ∨ 1e-5 < |(nrm newEdge old).z|))
    (h1 : 0 ≤ tA) (h2 : tA < 1) (h3' : 1e-8 ≤ tB) (h4 : tB < 1 - 1e-8) :
    (l.push p).2 ≠ .ok () ∧ (l.push p).1 = l := by
  have hne : (l.push p).2 ≠ .ok () := by
    intro hok
    rw [push_ok_iff_valid, validToAdd_ok_iff] at hok
    have hnone := hok.2.2 h3 j hj
    obtain ⟨hm, hb⟩ := hcross
    rw [intersect_of_crossing _ _ tA tB hm hb h1 h2 h3' h4] at hnone
    cases hnone
  exact ⟨hne, push_unchanged_of_not_ok l p hne⟩

end
end G3d.C04
