import G3d.Model.Approx
namespace G3d.C07
theorem stub : True := trivial
end G3d.C07
