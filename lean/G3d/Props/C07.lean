import G3d.Proofs.Rounded
import G3d.Proofs.IntervalReal
/-!
# C07 — interval arithmetic on approximate floats encloses the exact result

For **every** scalar type `F` whose arithmetic satisfies the rounding laws `Rounded F`
(faithful basic operations, value-monotone `next_float_up/down`, `<` comparing values — see
`Proofs/Rounded.lean`; discharged for the soft-float model of binary64/binary32 in `Proofs/SoftFloat*.lean`),
for all finite well-formed operand intervals, for all reals inside them, and for each of the 18 operator forms
of `round_error.rs`: the exact real result lies inside the result interval (whose end points may have overflowed
to ±∞), no end point is NaN, and the lower end point is ≤ the upper one.

No bound on magnitudes: subnormals, signed zeros, powers of two and overflow are inside the statement.
The functions below are the *same* definitions the driver runs against the crate.
-/
namespace G3d.C07
open G3d Num Rounded

variable {F : Type} [Num F] [Rounded F]

/-- a finite, well-formed operand interval `[l, h]` -/
def WFin (a : Approx F) (l h : ℝ) : Prop := Is a.low l ∧ Is a.high h ∧ l ≤ h

/-- the result interval `r` encloses the real `z` and is well formed -/
def Encl (r : Approx F) (z : ℝ) : Prop :=
  (Lo r.low z ∧ Hi r.high z) ∧ (¬ nan r.low ∧ ¬ nan r.high ∧ val r.low ≤ val r.high)

theorem encl_of {r : Approx F} {z : ℝ} (hl : Lo r.low z) (hh : Hi r.high z) : Encl r z :=
  ⟨⟨hl, hh⟩, hl.1, hh.1, le_trans hl.2 hh.2⟩

/-- `From<Float>`: a finite scalar becomes a point interval -/
theorem ofFloat_wfin {s : F} {y : ℝ} (hs : Is s y) : WFin (Approx.ofFloat s) y y := by
  obtain ⟨n1, v1⟩ := sub_zero_exact s y hs.1 hs.2
  obtain ⟨n2, v2⟩ := add_zero_exact s y hs.1 hs.2
  exact ⟨⟨n1, v1⟩, ⟨n2, v2⟩, le_refl _⟩

/-! ## unary forms -/

theorem neg_encloses {a : Approx F} {al ah x : ℝ} (ha : WFin a al ah) (h1 : al ≤ x) (h2 : x ≤ ah) :
    Encl a.neg (-x) := by
  obtain ⟨hl, hh, _⟩ := ha
  obtain ⟨nl, vl⟩ := neg_spec a.low hl.1
  obtain ⟨nh, vh⟩ := neg_spec a.high hh.1
  apply encl_of
  · refine ⟨nh, ?_⟩
    show val (-a.high) ≤ _
    rw [vh, hh.2, ← EReal.coe_neg]; exact EReal.coe_le_coe_iff.2 (by linarith)
  · refine ⟨nl, ?_⟩
    show _ ≤ val (-a.low)
    rw [vl, hl.2, ← EReal.coe_neg]; exact EReal.coe_le_coe_iff.2 (by linarith)

theorem sqrt_encloses {a : Approx F} {al ah x : ℝ} (ha : WFin a al ah) (h0 : 0 ≤ al) (h1 : al ≤ x) (h2 : x ≤ ah) :
    Encl a.sqrt (Real.sqrt x) := by
  obtain ⟨hl, hh, _⟩ := ha
  obtain ⟨n1, l1, _⟩ := sqrt_spec a.low al hl.1 hl.2 h0
  obtain ⟨n2, _, u2⟩ := sqrt_spec a.high ah hh.1 hh.2 (by linarith)
  apply encl_of
  · exact (show Lo (nextDown (Num.sqrt a.low)) (Real.sqrt al) from ⟨(nextDown_spec _ n1).1, l1⟩).mono
      (Real.sqrt_le_sqrt h1)
  · exact (show Hi (nextUp (Num.sqrt a.high)) (Real.sqrt ah) from ⟨(nextUp_spec _ n2).1, u2⟩).mono
      (Real.sqrt_le_sqrt h2)

/-! ## binary forms -/

section binary
variable {a b : Approx F} {al ah bl bh x y : ℝ}

theorem add_encloses (ha : WFin a al ah) (hb : WFin b bl bh) (h1 : al ≤ x) (h2 : x ≤ ah) (h3 : bl ≤ y) (h4 : y ≤ bh) :
    Encl (a.add b) (x + y) := by
  obtain ⟨_, l, _⟩ := add_lo_hi ha.1 hb.1
  obtain ⟨_, _, u⟩ := add_lo_hi ha.2.1 hb.2.1
  exact encl_of (l.mono (by linarith)) (u.mono (by linarith))

theorem sub_encloses (ha : WFin a al ah) (hb : WFin b bl bh) (h1 : al ≤ x) (h2 : x ≤ ah) (h3 : bl ≤ y) (h4 : y ≤ bh) :
    Encl (a.sub b) (x - y) := by
  obtain ⟨_, l, _⟩ := sub_lo_hi ha.1 hb.2.1
  obtain ⟨_, _, u⟩ := sub_lo_hi ha.2.1 hb.1
  exact encl_of (l.mono (by linarith)) (u.mono (by linarith))

theorem mul_encloses (ha : WFin a al ah) (hb : WFin b bl bh) (h1 : al ≤ x) (h2 : x ≤ ah) (h3 : bl ≤ y) (h4 : y ≤ bh) :
    Encl (a.mul b) (x * y) := by
  obtain ⟨_, l0, u0⟩ := mul_lo_hi ha.1 hb.1
  obtain ⟨_, l1, u1⟩ := mul_lo_hi ha.2.1 hb.1
  obtain ⟨_, l2, u2⟩ := mul_lo_hi ha.1 hb.2.1
  obtain ⟨_, l3, u3⟩ := mul_lo_hi ha.2.1 hb.2.1
  exact encl_of (lo_of_four l0 l1 l2 l3 (corner_lo h1 h2 h3 h4)).nextDown
    (hi_of_four u0 u1 u2 u3 (corner_hi h1 h2 h3 h4)).nextUp

theorem div_encloses (ha : WFin a al ah) (hb : WFin b bl bh) (h0 : 0 < bl ∨ bh < 0)
    (h1 : al ≤ x) (h2 : x ≤ ah) (h3 : bl ≤ y) (h4 : y ≤ bh) :
    Encl (a.div b) (x / y) := by
  have hbl : bl ≠ 0 := by rcases h0 with h | h <;> [exact ne_of_gt h; exact ne_of_lt (by linarith [hb.2.2])]
  have hbh : bh ≠ 0 := by rcases h0 with h | h <;> [exact ne_of_gt (by linarith [hb.2.2]); exact ne_of_lt h]
  obtain ⟨_, l0, u0⟩ := div_lo_hi ha.1 hb.1 hbl
  obtain ⟨_, l1, u1⟩ := div_lo_hi ha.2.1 hb.1 hbl
  obtain ⟨_, l2, u2⟩ := div_lo_hi ha.1 hb.2.1 hbh
  obtain ⟨_, l3, u3⟩ := div_lo_hi ha.2.1 hb.2.1 hbh
  exact encl_of (lo_of_four l0 l1 l2 l3 (corner_div_lo h1 h2 h3 h4 h0)).nextDown
    (hi_of_four u0 u1 u2 u3 (corner_div_hi h1 h2 h3 h4 h0)).nextUp

/-! ## in-place forms (`+=`, `-=` share the bodies above; `*=`, `/=` have their own: one outward step) -/

theorem addAssign_encloses (ha : WFin a al ah) (hb : WFin b bl bh) (h1 : al ≤ x) (h2 : x ≤ ah) (h3 : bl ≤ y) (h4 : y ≤ bh) :
    Encl (a.addAssign b) (x + y) := add_encloses ha hb h1 h2 h3 h4

theorem subAssign_encloses (ha : WFin a al ah) (hb : WFin b bl bh) (h1 : al ≤ x) (h2 : x ≤ ah) (h3 : bl ≤ y) (h4 : y ≤ bh) :
    Encl (a.subAssign b) (x - y) := sub_encloses ha hb h1 h2 h3 h4

theorem mulAssign_encloses (ha : WFin a al ah) (hb : WFin b bl bh) (h1 : al ≤ x) (h2 : x ≤ ah) (h3 : bl ≤ y) (h4 : y ≤ bh) :
    Encl (a.mulAssign b) (x * y) := by
  obtain ⟨n0, l0, u0⟩ := mul_lo_hi ha.1 hb.1
  obtain ⟨n1, l1, u1⟩ := mul_lo_hi ha.2.1 hb.1
  obtain ⟨n2, l2, u2⟩ := mul_lo_hi ha.1 hb.2.1
  obtain ⟨n3, l3, u3⟩ := mul_lo_hi ha.2.1 hb.2.1
  exact encl_of (lo_nd_of_four n0 n1 n2 n3 l0 l1 l2 l3 (corner_lo h1 h2 h3 h4))
    (hi_nu_of_four n0 n1 n2 n3 u0 u1 u2 u3 (corner_hi h1 h2 h3 h4))

theorem divAssign_encloses (ha : WFin a al ah) (hb : WFin b bl bh) (h0 : 0 < bl ∨ bh < 0)
    (h1 : al ≤ x) (h2 : x ≤ ah) (h3 : bl ≤ y) (h4 : y ≤ bh) :
    Encl (a.divAssign b) (x / y) := by
  have hbl : bl ≠ 0 := by rcases h0 with h | h <;> [exact ne_of_gt h; exact ne_of_lt (by linarith [hb.2.2])]
  have hbh : bh ≠ 0 := by rcases h0 with h | h <;> [exact ne_of_gt (by linarith [hb.2.2]); exact ne_of_lt h]
  obtain ⟨n0, l0, u0⟩ := div_lo_hi ha.1 hb.1 hbl
  obtain ⟨n1, l1, u1⟩ := div_lo_hi ha.2.1 hb.1 hbl
  obtain ⟨n2, l2, u2⟩ := div_lo_hi ha.1 hb.2.1 hbh
  obtain ⟨n3, l3, u3⟩ := div_lo_hi ha.2.1 hb.2.1 hbh
  exact encl_of (lo_nd_of_four n0 n1 n2 n3 l0 l1 l2 l3 (corner_div_lo h1 h2 h3 h4 h0))
    (hi_nu_of_four n0 n1 n2 n3 u0 u1 u2 u3 (corner_div_hi h1 h2 h3 h4 h0))

end binary

/-! ## scalar forms -/

section scalar
variable {a : Approx F} {s : F} {al ah x y : ℝ}

theorem addF_encloses (ha : WFin a al ah) (hs : Is s y) (h1 : al ≤ x) (h2 : x ≤ ah) : Encl (a.addF s) (x + y) :=
  add_encloses ha (ofFloat_wfin hs) h1 h2 (le_refl _) (le_refl _)
theorem subF_encloses (ha : WFin a al ah) (hs : Is s y) (h1 : al ≤ x) (h2 : x ≤ ah) : Encl (a.subF s) (x - y) :=
  sub_encloses ha (ofFloat_wfin hs) h1 h2 (le_refl _) (le_refl _)
theorem divF_encloses (ha : WFin a al ah) (hs : Is s y) (hy : y ≠ 0) (h1 : al ≤ x) (h2 : x ≤ ah) :
    Encl (a.divF s) (x / y) :=
  div_encloses ha (ofFloat_wfin hs) (by rcases lt_or_gt_of_ne hy with h | h <;> [right; left] <;> exact h)
    h1 h2 (le_refl _) (le_refl _)
theorem addAssignF_encloses (ha : WFin a al ah) (hs : Is s y) (h1 : al ≤ x) (h2 : x ≤ ah) :
    Encl (a.addAssignF s) (x + y) :=
  addAssign_encloses ha (ofFloat_wfin hs) h1 h2 (le_refl _) (le_refl _)
theorem subAssignF_encloses (ha : WFin a al ah) (hs : Is s y) (h1 : al ≤ x) (h2 : x ≤ ah) :
    Encl (a.subAssignF s) (x - y) :=
  subAssign_encloses ha (ofFloat_wfin hs) h1 h2 (le_refl _) (le_refl _)
theorem mulAssignF_encloses (ha : WFin a al ah) (hs : Is s y) (h1 : al ≤ x) (h2 : x ≤ ah) :
    Encl (a.mulAssignF s) (x * y) :=
  mulAssign_encloses ha (ofFloat_wfin hs) h1 h2 (le_refl _) (le_refl _)
theorem divAssignF_encloses (ha : WFin a al ah) (hs : Is s y) (hy : y ≠ 0) (h1 : al ≤ x) (h2 : x ≤ ah) :
    Encl (a.divAssignF s) (x / y) :=
  divAssign_encloses ha (ofFloat_wfin hs) (by rcases lt_or_gt_of_ne hy with h | h <;> [right; left] <;> exact h)
    h1 h2 (le_refl _) (le_refl _)

/-- `Mul<Float>` has its own body: raw products, swap, then two outward steps. -/
theorem mulF_encloses (ha : WFin a al ah) (hs : Is s y) (h1 : al ≤ x) (h2 : x ≤ ah) :
    Encl (a.mulF s) (x * y) := by
  obtain ⟨n1, l1, u1⟩ := mul_lo_hi ha.1 hs
  obtain ⟨n2, l2, u2⟩ := mul_lo_hi ha.2.1 hs
  have hz : (al * y ≤ x * y ∧ x * y ≤ ah * y) ∨ (ah * y ≤ x * y ∧ x * y ≤ al * y) := by
    by_cases hy : 0 ≤ y
    · left; constructor <;> nlinarith
    · right; constructor <;> nlinarith
  have mn := lo_min (p := a.low * s) (q := a.high * s) n1 n2
  have mx := hi_max (p := a.high * s) (q := a.low * s) n2 n1
  unfold Approx.mulF
  simp only [Num.gt] at mx ⊢
  by_cases hc : Num.lt (a.high * s) (a.low * s) = true
  · simp only [hc, if_true] at mn mx ⊢
    apply encl_of
    · show Lo (nextDown (nextDown (a.high * s))) (x * y)
      refine Lo.nextDown ?_
      rcases hz with h | h
      · exact ⟨l1.1 |> fun _ => (nextDown_spec _ n2).1,
          le_trans (nextDown_mono _ _ n2 n1 mn.2.1) (l1.mono h.1).2⟩
      · exact l2.mono h.1
    · show Hi (nextUp (nextUp (a.low * s))) (x * y)
      refine Hi.nextUp ?_
      rcases hz with h | h
      · exact ⟨(nextUp_spec _ n1).1, le_trans (u2.mono h.2).2 (nextUp_mono _ _ n2 n1 mx.2.1)⟩
      · exact u1.mono h.2
  · simp only [hc] at mn mx ⊢
    apply encl_of
    · show Lo (nextDown (nextDown (a.low * s))) (x * y)
      refine Lo.nextDown ?_
      rcases hz with h | h
      · exact l1.mono h.1
      · exact ⟨(nextDown_spec _ n1).1, le_trans (nextDown_mono _ _ n1 n2 mn.2.2) (l2.mono h.1).2⟩
    · show Hi (nextUp (nextUp (a.high * s))) (x * y)
      refine Hi.nextUp ?_
      rcases hz with h | h
      · exact u2.mono h.2
      · exact ⟨(nextUp_spec _ n2).1, le_trans (u1.mono h.2).2 (nextUp_mono _ _ n1 n2 mx.2.2)⟩

end scalar

end G3d.C07
