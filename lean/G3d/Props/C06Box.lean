import G3d.Props.C06
import G3d.Props.C15c
/-!
# C06 — the box round trip is exact for axis-aligned transforms

`C06.roundtrip_bbox_superset` shows that a box sent forth and back contains the original (for a rotation it is strictly larger:
the hull of a hull).  For transforms whose matrix has a diagonal linear part — translations, scalings by non-zero factors of either
sign (mirrors), and every chain of those — the round trip returns **the original box**, which is the literal reading of C06's
"box round trip".  The proof uses the tightness of `transform_bbox` (`C15.bboxWith_least_image`).
-/
namespace G3d.C06
open G3d Num C15
noncomputable section

/-- affine with a diagonal linear part -/
def Diag (m : M4 ℝ) : Prop :=
  M4.Affine m ∧ m.a01 = 0 ∧ m.a02 = 0 ∧ m.a10 = 0 ∧ m.a12 = 0 ∧ m.a20 = 0 ∧ m.a21 = 0

theorem mulPoint_diag {m : M4 ℝ} (h : Diag m) (p : V3 ℝ) :
    m.mulPoint p = ⟨m.a00 * p.x + m.a03, m.a11 * p.y + m.a13, m.a22 * p.z + m.a23⟩ := by
  obtain ⟨ha, h1, h2, h3, h4, h5, h6⟩ := h
  rw [mulPoint_affine ha, h1, h2, h3, h4, h5, h6]; simp

theorem axis_fwd {a d s mn mx : ℝ} (h1 : mn ≤ s) (h2 : s ≤ mx) :
    min (a * mn + d) (a * mx + d) ≤ a * s + d ∧ a * s + d ≤ max (a * mn + d) (a * mx + d) := by
  rcases le_total 0 a with ha | ha
  · exact ⟨le_trans (min_le_left _ _) (by nlinarith), le_trans (by nlinarith) (le_max_right _ _)⟩
  · exact ⟨le_trans (min_le_right _ _) (by nlinarith), le_trans (by nlinarith) (le_max_left _ _)⟩

theorem axis_bwd {a d s mn mx : ℝ} (ha : a ≠ 0) (hw : mn ≤ mx)
    (h1 : min (a * mn + d) (a * mx + d) ≤ a * s + d) (h2 : a * s + d ≤ max (a * mn + d) (a * mx + d)) :
    mn ≤ s ∧ s ≤ mx := by
  rcases lt_or_gt_of_ne ha with hn | hp
  · have e1 : min (a * mn + d) (a * mx + d) = a * mx + d := min_eq_right (by nlinarith)
    have e2 : max (a * mn + d) (a * mx + d) = a * mn + d := max_eq_left (by nlinarith)
    rw [e1] at h1; rw [e2] at h2
    constructor
    · by_contra hc; have hc := not_le.1 hc; nlinarith
    · by_contra hc; have hc := not_le.1 hc; nlinarith
  · have e1 : min (a * mn + d) (a * mx + d) = a * mn + d := min_eq_left (by nlinarith)
    have e2 : max (a * mn + d) (a * mx + d) = a * mx + d := max_eq_right (by nlinarith)
    rw [e1] at h1; rw [e2] at h2
    constructor
    · by_contra hc; have hc := not_le.1 hc; nlinarith
    · by_contra hc; have hc := not_le.1 hc; nlinarith

theorem fromPoint_wf (p : V3 ℝ) : WF (BBox.fromPoint p) := ⟨le_refl _, le_refl _, le_refl _⟩

theorem bboxWith_wf (m : M4 ℝ) (b : BBox ℝ) : WF (Transform.bboxWith m b) := by
  unfold Transform.bboxWith
  simp only [unionPoint_eq_union]
  exact union_wf (union_wf (union_wf (union_wf (union_wf (union_wf (union_wf (fromPoint_wf _)))))))

/-- the image of a well-formed box under a diagonal affine map is the box of the images of its two extreme corners -/
theorem bboxWith_diag {m : M4 ℝ} (h : Diag m) {b : BBox ℝ} (hb : WF b) :
    Transform.bboxWith m b = BBox.new (m.mulPoint b.min) (m.mulPoint b.max) := by
  obtain ⟨w1, w2, w3⟩ := hb
  apply sub_antisymm
  · apply bboxWith_least_image ⟨w1, w2, w3⟩
    rintro p ⟨p1, p2, p3, p4, p5, p6⟩
    simp only [Contains, BBox.new, swapGt_fst, swapGt_snd, mulPoint_diag h]
    exact ⟨(axis_fwd p1 p2).1, (axis_fwd p1 p2).2, (axis_fwd p3 p4).1, (axis_fwd p3 p4).2, (axis_fwd p5 p6).1, (axis_fwd p5 p6).2⟩
  · apply new_least
    · exact bbox_contains_image h.1 ⟨le_refl _, w1, le_refl _, w2, le_refl _, w3⟩
    · exact bbox_contains_image h.1 ⟨w1, le_refl _, w2, le_refl _, w3, le_refl _⟩

/-- the diagonal entries of an invertible diagonal transform are non-zero -/
theorem diag_ne_zero {t : Transform ℝ} (h : Inv t) (hm : Diag t.m) (hi : Diag t.inv) :
    t.m.a00 ≠ 0 ∧ t.m.a11 ≠ 0 ∧ t.m.a22 ≠ 0 := by
  have r0 := roundtrip_pt h ⟨0, 0, 0⟩
  have r1 := roundtrip_pt h ⟨1, 1, 1⟩
  simp only [Transform.invTransformPt, Transform.transformPt, mulPoint_diag hm, mulPoint_diag hi, V3.mk.injEq] at r0 r1
  obtain ⟨x0, y0, z0⟩ := r0
  obtain ⟨x1, y1, z1⟩ := r1
  refine ⟨?_, ?_, ?_⟩
  · intro hz; rw [hz] at x1; nlinarith
  · intro hz; rw [hz] at y1; nlinarith
  · intro hz; rw [hz] at z1; nlinarith

/-- **box round trip, exact**: for an invertible transform with diagonal linear part the box sent forth and back is the original -/
theorem roundtrip_bbox_diag {t : Transform ℝ} (h : Inv t) (hm : Diag t.m) (hi : Diag t.inv) {b : BBox ℝ} (hb : WF b) :
    t.invTransformBBox (t.transformBBox b) = b := by
  obtain ⟨nx, ny, nz⟩ := diag_ne_zero h hm hi
  apply sub_antisymm
  · apply bboxWith_least_image (bboxWith_wf _ _)
    intro q hq
    have hq' : Contains (BBox.new (t.m.mulPoint b.min) (t.m.mulPoint b.max)) q := by
      have := bboxWith_diag hm hb
      have hq2 : Contains (Transform.bboxWith t.m b) q := hq
      rwa [this] at hq2
    have rt := roundtrip_pt' h q
    simp only [Transform.invTransformPt, Transform.transformPt] at rt
    generalize t.inv.mulPoint q = s at rt ⊢
    rw [mulPoint_diag hm] at rt
    simp only [Contains, BBox.new, swapGt_fst, swapGt_snd, mulPoint_diag hm] at hq'
    obtain ⟨q1, q2, q3, q4, q5, q6⟩ := hq'
    rw [← rt] at q1 q2 q3 q4 q5 q6
    simp only at q1 q2 q3 q4 q5 q6
    obtain ⟨w1, w2, w3⟩ := hb
    exact ⟨(axis_bwd nx w1 q1 q2).1, (axis_bwd nx w1 q1 q2).2, (axis_bwd ny w2 q3 q4).1, (axis_bwd ny w2 q3 q4).2,
      (axis_bwd nz w3 q5 q6).1, (axis_bwd nz w3 q5 q6).2⟩
  · exact (sub_iff_contains hb).2 (fun p hp => roundtrip_bbox_superset h hp)

theorem diag_translate (x y z : ℝ) : Diag (Transform.translate x y z).m ∧ Diag (Transform.translate x y z).inv := by
  have := inv_translate x y z
  refine ⟨⟨this.2.2.1, ?_⟩, ⟨this.2.2.2, ?_⟩⟩ <;> simp only [Transform.translate, M4.identity] <;> num_real <;> simp

theorem diag_scale (x y z : ℝ) : Diag (Transform.scale x y z).m ∧ Diag (Transform.scale x y z).inv := by
  refine ⟨⟨?_, ?_⟩, ⟨?_, ?_⟩⟩ <;> simp only [M4.Affine, Transform.scale] <;> num_real <;> simp

/-- diagonal transforms are closed under composition (`*=`), so every chain of translations and scalings is covered -/
theorem diag_mul {a b : M4 ℝ} (ha : Diag a) (hb : Diag b) : Diag (a.mul b) := by
  obtain ⟨⟨a0, a1, a2, a3⟩, a4, a5, a6, a7, a8, a9⟩ := ha
  obtain ⟨⟨b0, b1, b2, b3⟩, b4, b5, b6, b7, b8, b9⟩ := hb
  refine ⟨⟨?_, ?_, ?_, ?_⟩, ?_, ?_, ?_, ?_, ?_, ?_⟩ <;>
    simp only [M4.mul, a0, a1, a2, a3, a4, a5, a6, a7, a8, a9, b0, b1, b2, b3, b4, b5, b6, b7, b8, b9] <;> simp

/-- translations and (mirror) scalings: the box comes back exactly -/
theorem roundtrip_bbox_translate (x y z : ℝ) {b : BBox ℝ} (hb : WF b) :
    (Transform.translate x y z).invTransformBBox ((Transform.translate x y z).transformBBox b) = b :=
  roundtrip_bbox_diag (inv_translate x y z) (diag_translate x y z).1 (diag_translate x y z).2 hb

theorem roundtrip_bbox_scale {x y z : ℝ} (hx : x ≠ 0) (hy : y ≠ 0) (hz : z ≠ 0) {b : BBox ℝ} (hb : WF b) :
    (Transform.scale x y z).invTransformBBox ((Transform.scale x y z).transformBBox b) = b :=
  roundtrip_bbox_diag (inv_scale hx hy hz) (diag_scale x y z).1 (diag_scale x y z).2 hb

/-- non-vacuity: a mirror scaling of a concrete box -/
example : (Transform.scale (-2 : ℝ) 3 (-1)).invTransformBBox ((Transform.scale (-2 : ℝ) 3 (-1)).transformBBox
    ⟨⟨0, 0, 0⟩, ⟨1, 2, 3⟩⟩) = ⟨⟨0, 0, 0⟩, ⟨1, 2, 3⟩⟩ :=
  roundtrip_bbox_scale (by norm_num) (by norm_num) (by norm_num) (by simp [WF])

end
end G3d.C06
