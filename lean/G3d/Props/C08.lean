import G3d.Props.C18
import G3d.Props.C01
/-!
# C08 — refinement steps keep a conforming mesh of the same region (what is proved)

Generic in the scalar type:
* `flipped_none_of_constrained`, `flipped_none_of_boundary` — `get_flipped_aspect_ratio` offers no flip across an edge that is
  marked as fixed, nor across an edge without a neighbour.
* `restoreEdgeLoop_best` — the edge `restore_delaunay` picks for a triangle is one for which `get_flipped_aspect_ratio`
  returned `Some` on the very mesh it is then flipped in; hence (`restore_never_flips_fixed`) **edges on the polygon's
  outline or on a hole (constrained, or without a neighbour) are never flipped by `restore_delaunay` / `refine`**.
* `refine_ok_all_valid` — **no discarded triangle is ever reported**: after a successful `refine` every slot that
  `get_trilist` returns is a live triangle (from C18's fixpoint theorem).
Over ℝ (`C01.split_triangle_area`, `C01.split_edge_area`, `C01.flip_area`): the triangles each step creates have the same total
vector area as the triangles it discards — **total area unchanged** — for `split_triangle` at any point, for `split_edge` at
any point of the edge, and for `flip_diagonal`.
Not proved: the neighbour-pointer reciprocity and constraint-flag bookkeeping of the slot array after each step; on every run
these are decided by the bit-exact replay of refinement histories plus the conformity oracle (`oracle/c08.py`).
-/
namespace G3d.C08
open G3d Num Mesh
set_option linter.unusedSectionVars false
variable {α : Type} [Num α]

/-- no flip is offered across a fixed (constrained) edge -/
theorem flipped_none_of_constrained (m : Mesh α) (i : Nat) (e : Edge) (tp : TriPiece α)
    (ht : m.triangles[i]? = some tp) (hv : tp.valid = true) (hc : tp.isConstrained e = true) :
    m.getFlippedAspectRatio i e = .ok none := by
  simp [getFlippedAspectRatio, tget, ht, hv, hc, Bind.bind, Res.bind]

/-- no flip is offered across an edge without a neighbour (an edge on the outline or on a hole) -/
theorem flipped_none_of_boundary (m : Mesh α) (i : Nat) (e : Edge) (tp : TriPiece α)
    (ht : m.triangles[i]? = some tp) (hv : tp.valid = true) (hn : tp.neighbour e = none) :
    m.getFlippedAspectRatio i e = .ok none := by
  unfold getFlippedAspectRatio
  simp only [tget, ht, hv, Bind.bind, Res.bind, Bool.not_true, Bool.false_eq_true, if_false, hn]
  split <;> rfl

/-- a flip that is offered is across an edge that is not fixed and has a neighbour -/
theorem flipped_some (m : Mesh α) (i : Nat) (e : Edge) (tp : TriPiece α) (ar : α)
    (ht : m.triangles[i]? = some tp) (hv : tp.valid = true) (h : m.getFlippedAspectRatio i e = .ok (some ar)) :
    tp.isConstrained e = false ∧ ∃ j, tp.neighbour e = some j := by
  constructor
  · cases hc : tp.isConstrained e with
    | false => rfl
    | true => rw [flipped_none_of_constrained m i e tp ht hv hc] at h; cases h
  · cases hn : tp.neighbour e with
    | some j => exact ⟨j, rfl⟩
    | none => rw [flipped_none_of_boundary m i e tp ht hv hn] at h; cases h

/-- the edge picked by the `for j in 0..3` loop of `restore_delaunay` was offered by `get_flipped_aspect_ratio` -/
theorem restoreEdgeLoop_best (m : Mesh α) (i : Nat) (cur : α) :
    ∀ (fuel j : Nat) (best : Option Edge) (bar : α) (e : Edge) (r : α),
      (∀ b, best = some b → ∃ ar, m.getFlippedAspectRatio i b = .ok (some ar)) →
      restoreEdgeLoop m i cur fuel j best bar = .ok (some e, r) →
      ∃ ar, m.getFlippedAspectRatio i e = .ok (some ar) := by
  intro fuel
  induction fuel with
  | zero =>
    intro j best bar e r hb h
    simp only [restoreEdgeLoop, Res.ok.injEq, Prod.mk.injEq] at h
    exact hb e h.1
  | succ f ih =>
    intro j best bar e r hb h
    unfold restoreEdgeLoop at h
    cases hf : Edge.fromI j with
    | err x => rw [hf] at h; simp [Bind.bind, Res.bind] at h
    | panic x => rw [hf] at h; simp [Bind.bind, Res.bind] at h
    | ok thisEdge =>
      rw [hf] at h
      simp only [Bind.bind, Res.bind] at h
      cases hg : m.getFlippedAspectRatio i thisEdge with
      | err x => rw [hg] at h; simp at h
      | panic x => rw [hg] at h; simp at h
      | ok far =>
        rw [hg] at h
        simp only [] at h
        cases far with
        | none => exact ih _ _ _ _ _ hb h
        | some ar =>
          simp only [] at h
          split at h
          · refine ih _ _ _ _ _ ?_ h
            intro b hbe
            cases hbe
            exact ⟨ar, hg⟩
          · exact ih _ _ _ _ _ hb h

/-- **`restore_delaunay` never picks a fixed edge or an edge without a neighbour for flipping** -/
theorem restore_never_flips_fixed (m : Mesh α) (i : Nat) (cur : α) (e : Edge) (r : α) (tp : TriPiece α)
    (ht : m.triangles[i]? = some tp) (hv : tp.valid = true)
    (h : restoreEdgeLoop m i cur 3 0 none (Num.maxv : α) = .ok (some e, r)) :
    tp.isConstrained e = false ∧ ∃ j, tp.neighbour e = some j := by
  obtain ⟨ar, har⟩ := restoreEdgeLoop_best m i cur 3 0 none _ e r (fun b hb => by cases hb) h
  exact flipped_some m i e tp ar ht hv har

/-- **no discarded triangle is reported after a successful refinement**: every slot is live -/
theorem refine_ok_all_valid (maxArea maxAr : α) (fuel : Nat) (m m' : Mesh α)
    (h : refine maxArea maxAr fuel m = (m', .ok ())) :
    ∀ j (hj : j < m'.triangles.size), (m'.triangles[j]).valid = true := by
  intro j hj
  obtain ⟨tp, ht, hv, _⟩ := C18.refine_ok_bound maxArea maxAr fuel m m' h j hj
  have : m'.triangles[j]? = some m'.triangles[j] := by simp [hj]
  rw [this] at ht
  cases ht
  exact hv

/-! ## reciprocity of one neighbour link -/

theorem tmodifyM_ok (i : Nat) (f : TriPiece α → TriPiece α) (site : String) (m m' : Mesh α)
    (h : tmodifyM i f site m = (m', .ok ())) :
    i < m.triangles.size ∧ m'.triangles = m.triangles.modify i f ∧ m'.nValid = m.nValid := by
  unfold tmodifyM at h
  by_cases hi : i < m.triangles.size
  · simp only [hi, if_true, Prod.mk.injEq] at h
    exact ⟨hi, by rw [← h.1], by rw [← h.1]⟩
  · simp [hi] at h

theorem setNeighbour_neighbour (t : TriPiece α) (e : Edge) (i : Nat) : (t.setNeighbour e i).neighbour e = some i := by
  cases e <;> rfl

theorem setNeighbour_triangle (t : TriPiece α) (e : Edge) (i : Nat) :
    (t.setNeighbour e i).triangle = t.triangle ∧ (t.setNeighbour e i).valid = t.valid := by
  cases e <;> exact ⟨rfl, rfl⟩

/-- **a successful `mark_as_neighbours(i1, e1, i2)` links the two triangles reciprocally across a shared segment**: afterwards
    triangle `i1` points to `i2` across `e1`, triangle `i2` points back to `i1` across an edge `e2` whose segment `compare`s equal
    to that of `e1`, both are live, their geometry is untouched and every other slot is unchanged -/
theorem markAsNeighbours_reciprocal (i1 i2 : Nat) (e1 : Edge) (m m' : Mesh α)
    (h : markAsNeighbours i1 e1 i2 m = (m', .ok ())) :
    i1 ≠ i2 ∧ ∃ t1 t2 e2 seg k,
      m.triangles[i1]? = some t1 ∧ m.triangles[i2]? = some t2 ∧ t1.valid = true ∧ t2.valid = true ∧
      t1.triangle.segment e1.asI = .ok seg ∧ t2.triangle.getEdgeIndexFromSegment seg = some k ∧ Edge.fromI k = .ok e2 ∧
      m'.triangles[i1]? = some (t1.setNeighbour e1 i2) ∧ m'.triangles[i2]? = some (t2.setNeighbour e2 i1) ∧
      (∀ j, j ≠ i1 → j ≠ i2 → m'.triangles[j]? = m.triangles[j]?) ∧ m'.nValid = m.nValid := by
  unfold markAsNeighbours at h
  by_cases hi : (i1 == i2) = true
  · simp [hi, MeshM.err] at h
  have hne : i1 ≠ i2 := by simpa using hi
  rw [if_neg hi] at h
  simp only [Bind.bind] at h
  obtain ⟨t1, m1, hx, h3⟩ := C18.bind_ok_inv _ _ _ _ _ h
  obtain ⟨rfl, ht1⟩ := C18.tgetM_ok_inv _ _ _ _ _ hx
  clear h
  by_cases hv1 : (!t1.valid) = true
  · rw [if_pos hv1] at h3; simp [MeshM.err] at h3
  rw [if_neg hv1] at h3
  obtain ⟨seg, m2, hx, h4⟩ := C18.bind_ok_inv _ _ _ _ _ h3
  simp only [MeshM.ofRes, Prod.mk.injEq] at hx
  obtain ⟨rfl, hseg⟩ := hx
  clear h3
  obtain ⟨t2, m3, hx, h5⟩ := C18.bind_ok_inv _ _ _ _ _ h4
  obtain ⟨rfl, ht2⟩ := C18.tgetM_ok_inv _ _ _ _ _ hx
  clear h4
  by_cases hv2 : (!t2.valid) = true
  · rw [if_pos hv2] at h5; simp [MeshM.err] at h5
  rw [if_neg hv2] at h5
  obtain ⟨k, m4, hx, h6⟩ := C18.bind_ok_inv _ _ _ _ _ h5
  simp only [MeshM.ofRes, Prod.mk.injEq] at hx
  obtain ⟨rfl, hk⟩ := hx
  clear h5
  have hk' : t2.triangle.getEdgeIndexFromSegment seg = some k := by
    cases hg : t2.triangle.getEdgeIndexFromSegment seg with
    | none => rw [hg] at hk; cases hk
    | some k' => rw [hg] at hk; cases hk; rfl
  obtain ⟨e2, m5, hx, h7⟩ := C18.bind_ok_inv _ _ _ _ _ h6
  simp only [MeshM.ofRes, Prod.mk.injEq] at hx
  obtain ⟨rfl, he2⟩ := hx
  clear h6
  obtain ⟨u, m6, hx, h8⟩ := C18.bind_ok_inv _ _ _ _ _ h7
  obtain ⟨hs1, hm6, hn6⟩ := tmodifyM_ok _ _ _ _ _ hx
  obtain ⟨hs2, hm', hn'⟩ := tmodifyM_ok _ _ _ _ _ h8
  have hv1' : t1.valid = true := by simpa using hv1
  have hv2' : t2.valid = true := by simpa using hv2
  refine ⟨hne, t1, t2, e2, seg, k, ht1, ht2, hv1', hv2', hseg, hk', he2, ?_, ?_, ?_, ?_⟩
  · rw [hm', hm6, Array.getElem?_modify, Array.getElem?_modify]
    simp [hne.symm, ht1]
  · rw [hm', hm6, Array.getElem?_modify, Array.getElem?_modify]
    simp [hne, ht2]
  · intro j hj1 hj2
    rw [hm', hm6, Array.getElem?_modify, Array.getElem?_modify]
    simp [Ne.symm hj1, Ne.symm hj2]
  · rw [hn', hn6]

end G3d.C08
