import G3d.Props.C18
import G3d.Props.C01
/-!
# C08 — refinement steps keep a conforming mesh of the same region (what is proved)

Generic in the scalar type:
* `flipped_none_of_constrained`, `flipped_none_of_boundary` — `get_flipped_aspect_ratio` offers no flip across an edge that is
  marked as fixed, nor across an edge without a neighbour.
* `restoreEdgeLoop_best` — the edge `restore_delaunay` picks for a triangle is one for which `get_flipped_aspect_ratio`
  returned `Some` on the very mesh it is then flipped in; hence (`restore_never_flips_fixed`) **edges on the polygon's
  outline or on a hole (constrained, or without a neighbour) are never flipped by `restore_delaunay` / `refine`**.
* `refine_ok_all_valid` — **no discarded triangle is ever reported**: after a successful `refine` every slot that
  `get_trilist` returns is a live triangle (from C18's fixpoint theorem).
Over ℝ (`C01.split_triangle_area`, `C01.split_edge_area`, `C01.flip_area`): the triangles each step creates have the same total
vector area as the triangles it discards — **total area unchanged** — for `split_triangle` at any point, for `split_edge` at
any point of the edge, and for `flip_diagonal`.
Not proved: the neighbour-pointer reciprocity and constraint-flag bookkeeping of the slot array after each step; on every run
these are decided by the bit-exact replay of refinement histories plus the conformity oracle (`oracle/c08.py`).
-/
namespace G3d.C08
open G3d Num Mesh
set_option linter.unusedSectionVars false
variable {α : Type} [Num α]

/-- no flip is offered across a fixed (constrained) edge -/
theorem flipped_none_of_constrained (m : Mesh α) (i : Nat) (e : Edge) (tp : TriPiece α)
    (ht : m.triangles[i]? = some tp) (hv : tp.valid = true) (hc : tp.isConstrained e = true) :
    m.getFlippedAspectRatio i e = .ok none := by
  simp [getFlippedAspectRatio, tget, ht, hv, hc, Bind.bind, Res.bind]

/-- no flip is offered across an edge without a neighbour (an edge on the outline or on a hole) -/
theorem flipped_none_of_boundary (m : Mesh α) (i : Nat) (e : Edge) (tp : TriPiece α)
    (ht : m.triangles[i]? = some tp) (hv : tp.valid = true) (hn : tp.neighbour e = none) :
    m.getFlippedAspectRatio i e = .ok none := by
  unfold getFlippedAspectRatio
  simp only [tget, ht, hv, Bind.bind, Res.bind, Bool.not_true, Bool.false_eq_true, if_false, hn]
  split <;> rfl

/-- a flip that is offered is across an edge that is not fixed and has a neighbour -/
theorem flipped_some (m : Mesh α) (i : Nat) (e : Edge) (tp : TriPiece α) (ar : α)
    (ht : m.triangles[i]? = some tp) (hv : tp.valid = true) (h : m.getFlippedAspectRatio i e = .ok (some ar)) :
    tp.isConstrained e = false ∧ ∃ j, tp.neighbour e = some j := by
  constructor
  · cases hc : tp.isConstrained e with
    | false => rfl
    | true => rw [flipped_none_of_constrained m i e tp ht hv hc] at h; cases h
  · cases hn : tp.neighbour e with
    | some j => exact ⟨j, rfl⟩
    | none => rw [flipped_none_of_boundary m i e tp ht hv hn] at h; cases h

/-- the edge picked by the `for j in 0..3` loop of `restore_delaunay` was offered by `get_flipped_aspect_ratio` -/
theorem restoreEdgeLoop_best (m : Mesh α) (i : Nat) (cur : α) :
    ∀ (fuel j : Nat) (best : Option Edge) (bar : α) (e : Edge) (r : α),
      (∀ b, best = some b → ∃ ar, m.getFlippedAspectRatio i b = .ok (some ar)) →
      restoreEdgeLoop m i cur fuel j best bar = .ok (some e, r) →
      ∃ ar, m.getFlippedAspectRatio i e = .ok (some ar) := by
  intro fuel
  induction fuel with
  | zero =>
    intro j best bar e r hb h
    simp only [restoreEdgeLoop, Res.ok.injEq, Prod.mk.injEq] at h
    exact hb e h.1
  | succ f ih =>
    intro j best bar e r hb h
    unfold restoreEdgeLoop at h
    cases hf : Edge.fromI j with
    | err x => rw [hf] at h; simp [Bind.bind, Res.bind] at h
    | panic x => rw [hf] at h; simp [Bind.bind, Res.bind] at h
    | ok thisEdge =>
      rw [hf] at h
      simp only [Bind.bind, Res.bind] at h
      cases hg : m.getFlippedAspectRatio i thisEdge with
      | err x => rw [hg] at h; simp at h
      | panic x => rw [hg] at h; simp at h
      | ok far =>
        rw [hg] at h
        simp only [] at h
        cases far with
        | none => exact ih _ _ _ _ _ hb h
        | some ar =>
          simp only [] at h
          split at h
          · refine ih _ _ _ _ _ ?_ h
            intro b hbe
            cases hbe
            exact ⟨ar, hg⟩
          · exact ih _ _ _ _ _ hb h

/-- **`restore_delaunay` never picks a fixed edge or an edge without a neighbour for flipping** -/
theorem restore_never_flips_fixed (m : Mesh α) (i : Nat) (cur : α) (e : Edge) (r : α) (tp : TriPiece α)
    (ht : m.triangles[i]? = some tp) (hv : tp.valid = true)
    (h : restoreEdgeLoop m i cur 3 0 none (Num.maxv : α) = .ok (some e, r)) :
    tp.isConstrained e = false ∧ ∃ j, tp.neighbour e = some j := by
  obtain ⟨ar, har⟩ := restoreEdgeLoop_best m i cur 3 0 none _ e r (fun b hb => by cases hb) h
  exact flipped_some m i e tp ar ht hv har

/-- **no discarded triangle is reported after a successful refinement**: every slot is live -/
theorem refine_ok_all_valid (maxArea maxAr : α) (fuel : Nat) (m m' : Mesh α)
    (h : refine maxArea maxAr fuel m = (m', .ok ())) :
    ∀ j (hj : j < m'.triangles.size), (m'.triangles[j]).valid = true := by
  intro j hj
  obtain ⟨tp, ht, hv, _⟩ := C18.refine_ok_bound maxArea maxAr fuel m m' h j hj
  have : m'.triangles[j]? = some m'.triangles[j] := by simp [hj]
  rw [this] at ht
  cases ht
  exact hv

end G3d.C08
