import G3d.Props.C05Vertex
import G3d.Props.C04Cross
/-!
# C05 — what a counted crossing is, geometrically

`crossingIncrement_iff_meets` (exact arithmetic): an edge with neither end on the ray, in one plane with the ray and not parallel
to it within the guard of `get_intersection_pt`, is counted by `test_point` exactly when the closed edge and the closed ray segment
have a point in common.  Together with `C05.testPointLoop_parity` (the answer is the parity of the counted edges) and the vertex
rule of `C05Vertex`, `test_point` is the crossing-number algorithm on the outline; what remains unproved is the Jordan-curve
statement itself (odd ⇔ inside), which the exact winding-number oracle decides on every run.
-/
namespace G3d.C05V
open G3d Num C04 C19
noncomputable section

theorem inUnitClosed_iff (t : ℝ) : inUnitClosed t = true ↔ 0 ≤ t ∧ t ≤ 1 := by
  unfold inUnitClosed
  simp only [Bool.and_eq_true]
  constructor
  · rintro ⟨h1, h2⟩
    bool_real_at h1; bool_real_at h2; num_real_at h1; num_real_at h2
    exact ⟨h1, h2⟩
  · rintro ⟨h1, h2⟩
    refine ⟨?_, ?_⟩
    · bool_real; num_real; exact h1
    · bool_real; num_real; exact h2

/-- **what "the ray crosses the edge" means** (exact arithmetic): for an edge and a ray segment in one plane that are not
    parallel within the guard of `get_intersection_pt` and with neither end of the edge on the ray, the edge is counted exactly
    when the two closed segments have a point in common — the edge at a parameter in `[0, 1]`, the ray at a parameter in `[0, 1]` -/
theorem crossingIncrement_iff_meets (normal d : V3 ℝ) (ray s : Segment ℝ)
    (ha : Loop.onRay ray.start d s.start = false) (hb : Loop.onRay ray.start d s.stop = false)
    (hc : (delta s ray).dot (nrm s ray) = 0)
    (hbig : 1e-5 < |(nrm s ray).x| ∨ 1e-5 < |(nrm s ray).y| ∨ 1e-5 < |(nrm s ray).z|) :
    Loop.crossingIncrement normal d ray s = 1 ↔
      ∃ tA tB : ℝ, 0 ≤ tA ∧ tA ≤ 1 ∧ 0 ≤ tB ∧ tB ≤ 1 ∧ at' s tA = at' ray tB := by
  rw [crossingIncrement_proper normal d ray s ha hb]
  constructor
  · intro h
    cases hg : s.getIntersectionPt ray with
    | none => rw [hg] at h; cases h
    | some r =>
      obtain ⟨tA, tB⟩ := r
      rw [hg] at h
      simp only [] at h
      split at h
      · rename_i hu
        simp only [Bool.and_eq_true] at hu
        obtain ⟨hB, hA⟩ := hu
        rw [inUnitClosed_iff] at hA hB
        exact ⟨tA, tB, hA.1, hA.2, hB.1, hB.2, ipt_locates_coplanar s ray tA tB hg hc⟩
      · cases h
  · rintro ⟨tA, tB, hA0, hA1, hB0, hB1, hm⟩
    rw [ipt_complete s ray tA tB hm hbig]
    simp only []
    have h1 : inUnitClosed tB = true := (inUnitClosed_iff tB).2 ⟨hB0, hB1⟩
    have h2 : inUnitClosed tA = true := (inUnitClosed_iff tA).2 ⟨hA0, hA1⟩
    simp [h1, h2]
end
end G3d.C05V
