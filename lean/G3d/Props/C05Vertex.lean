import G3d.Props.C05
/-!
# C05 — the vertex rule of the crossing count (since the repair 644d823)

`test_point` decides **per vertex** whether the test ray passes through it (`onRay`: within 1e-8 of the ray), so the two edges that
meet at a vertex agree about it (`vertex_agreement`); an edge whose start (end) is on the ray is counted by the side on which its
other end lies, i.e. by the sign of `(d × edge) · normal` (since 3rd repair: not `is_same_direction`, whose parallel test is absolute) — no intersection is solved, so an edge running along the ray is handled like any other
(`crossingIncrement_start/_end`); an edge with both ends on the ray is left to its neighbours (`crossingIncrement_along`); any other
edge counts iff it properly crosses (`crossingIncrement_proper`).  Every edge is counted at most once.  Over ℝ: `onRay_iff`.
-/
namespace G3d.C05V
open G3d Num C04
section generic
set_option linter.unusedSectionVars false
variable {α : Type} [Num α]

/-- each edge is counted at most once -/
theorem crossingIncrement_le_one (normal d : V3 α) (ray s : Segment α) : Loop.crossingIncrement normal d ray s ≤ 1 := by
  unfold Loop.crossingIncrement
  simp only []
  split
  · exact Nat.zero_le _
  · split
    · split <;> simp
    · split
      · split <;> simp
      · split
        · split <;> simp
        · simp

/-- **the two edges meeting at a vertex agree whether the ray passes through it**: that is a property of the vertex alone -/
theorem vertex_agreement (normal d : V3 α) (ray e1 e2 : Segment α) (h : e1.stop = e2.start) :
    Loop.onRay ray.start d e1.stop = Loop.onRay ray.start d e2.start := by rw [h]

/-- an edge lying on the ray is left to its neighbours -/
theorem crossingIncrement_along (normal d : V3 α) (ray s : Segment α)
    (ha : Loop.onRay ray.start d s.start = true) (hb : Loop.onRay ray.start d s.stop = true) :
    Loop.crossingIncrement normal d ray s = 0 := by
  unfold Loop.crossingIncrement; simp [ha, hb]

/-- the ray leaves the vertex at the start of the edge: counted by the side on which the edge's other end lies, whatever the
    angle between edge and ray (no intersection is solved) -/
theorem crossingIncrement_start (normal d : V3 α) (ray s : Segment α)
    (ha : Loop.onRay ray.start d s.start = true) (hb : Loop.onRay ray.start d s.stop = false) :
    Loop.crossingIncrement normal d ray s = if (d.cross s.asVector).dot normal >. (0 : α) then 1 else 0 := by
  unfold Loop.crossingIncrement; simp [ha, hb]

theorem crossingIncrement_end (normal d : V3 α) (ray s : Segment α)
    (ha : Loop.onRay ray.start d s.start = false) (hb : Loop.onRay ray.start d s.stop = true) :
    Loop.crossingIncrement normal d ray s = if (d.cross s.asReversedVector).dot normal >. (0 : α) then 1 else 0 := by
  unfold Loop.crossingIncrement; simp [ha, hb]

/-- neither end on the ray: a crossing is a proper one, with both parameters in `[0, 1]` -/
theorem crossingIncrement_proper (normal d : V3 α) (ray s : Segment α)
    (ha : Loop.onRay ray.start d s.start = false) (hb : Loop.onRay ray.start d s.stop = false) :
    Loop.crossingIncrement normal d ray s =
      match s.getIntersectionPt ray with
      | some (tA, tB) => if inUnitClosed tB && inUnitClosed tA then 1 else 0
      | none => 0 := by
  unfold Loop.crossingIncrement
  simp only [ha, hb, Bool.and_self, Bool.false_eq_true, if_false]
  cases s.getIntersectionPt ray with
  | none => rfl
  | some r => rfl
end generic

noncomputable section
/-- over ℝ: a vertex is on the ray iff its foot on the ray's line has parameter in `[0, 1]` and it is within `1e-8` of that foot -/
theorem onRay_iff (point d p : V3 ℝ) :
    Loop.onRay point d p = true ↔
      0 ≤ (p - point).dot d / d.dot d ∧ (p - point).dot d / d.dot d ≤ 1 ∧
      ((p - point) - d.smul ((p - point).dot d / d.dot d)).length ≤ 1e-8 := by
  unfold Loop.onRay inUnitClosed
  simp only [Bool.and_eq_true]
  constructor
  · rintro ⟨⟨h1, h2⟩, h3⟩
    bool_real_at h1; bool_real_at h2; bool_real_at h3
    num_real_at h1; num_real_at h2; num_real_at h3
    exact ⟨h1, h2, h3⟩
  · rintro ⟨h1, h2, h3⟩
    refine ⟨⟨?_, ?_⟩, ?_⟩
    · bool_real; num_real; exact h1
    · bool_real; num_real; exact h2
    · bool_real; num_real; exact h3

/-- scalar triple product: `(d × e) · n = e · (n × d)` -/
theorem triple (d e n : V3 ℝ) : (d.cross e).dot n = e.dot (n.cross d) := by
  vec_real; ring

/-- **the start-vertex rule, geometrically** (exact arithmetic): with the ray leaving the edge's start vertex, the edge is counted
    exactly when it points strictly to the left of the ray, "left" being the in-plane direction `n × d` -/
theorem crossingIncrement_start_left (normal d : V3 ℝ) (ray s : Segment ℝ)
    (ha : Loop.onRay ray.start d s.start = true) (hb : Loop.onRay ray.start d s.stop = false) :
    Loop.crossingIncrement normal d ray s = 1 ↔ 0 < (s.stop - s.start).dot (normal.cross d) := by
  rw [crossingIncrement_start normal d ray s ha hb]
  have e : (d.cross s.asVector).dot normal = (s.stop - s.start).dot (normal.cross d) := by
    unfold Segment.asVector; exact triple d _ normal
  constructor
  · intro h
    split at h
    · rename_i hg
      bool_real_at hg; num_real_at hg
      rw [e] at hg; exact hg
    · cases h
  · intro h
    have hg : ((d.cross s.asVector).dot normal >. (0 : ℝ)) = true := by
      bool_real; num_real; rw [e]; exact h
    simp [hg]

/-- the end-vertex rule: counted exactly when the edge comes from the left of the ray -/
theorem crossingIncrement_end_left (normal d : V3 ℝ) (ray s : Segment ℝ)
    (ha : Loop.onRay ray.start d s.start = false) (hb : Loop.onRay ray.start d s.stop = true) :
    Loop.crossingIncrement normal d ray s = 1 ↔ 0 < (s.start - s.stop).dot (normal.cross d) := by
  rw [crossingIncrement_end normal d ray s ha hb]
  have e : (d.cross s.asReversedVector).dot normal = (s.start - s.stop).dot (normal.cross d) := by
    unfold Segment.asReversedVector; exact triple d _ normal
  constructor
  · intro h
    split at h
    · rename_i hg
      bool_real_at hg; num_real_at hg
      rw [e] at hg; exact hg
    · cases h
  · intro h
    have hg : ((d.cross s.asReversedVector).dot normal >. (0 : ℝ)) = true := by
      bool_real; num_real; rw [e]; exact h
    simp [hg]
end
end G3d.C05V
