import G3d.Model.Mesh
/-!
# C18 — a successful refinement honours the requested aspect-ratio bound

Generic in the scalar type.  `refine` answers `Ok` only after a pass over all slots that changed nothing, and such a pass
leaves the mesh exactly as it found it; so in the mesh `mesh_polygon` returns

* every slot is a live triangle (`refine_ok_all_valid`), and
* every triangle whose stored area is not below the floor `1e-3` has a cached aspect ratio that is not above the requested
  maximum (`refine_ok_bound`) — the cached value being `circumradius / shortest edge` of that very triangle as computed by
  `Triangle3D::aspect_ratio` when the triangle was created (`TriPiece.new_aspectRatio`).
That the cached ratio agrees with an independent measurement of the triangle is the oracle's part (floating point).
-/
namespace G3d.C18
open G3d Num Mesh
set_option linter.unusedSectionVars false
variable {α : Type} [Num α]

/-- the cached aspect ratio of a freshly built piece is `Triangle3D::aspect_ratio()` of its triangle -/
theorem TriPiece.new_aspectRatio (a b c : V3 α) (i : Nat) (tp : TriPiece α) (h : TriPiece.new a b c i = .ok tp) :
    tp.aspectRatio = tp.triangle.aspectRatio ∧ tp.valid = true := by
  unfold TriPiece.new at h
  cases ht : Triangle.new a b c with
  | err e => rw [ht] at h; simp [Bind.bind, Res.bind] at h
  | panic q => rw [ht] at h; simp [Bind.bind, Res.bind] at h
  | ok t =>
    rw [ht] at h
    simp only [Bind.bind, Res.bind, Triangle.aspectRatioR_eq] at h
    cases h
    exact ⟨rfl, rfl⟩

/-- a sequence cannot produce an outcome that none of its continuations can produce -/
theorem bind_ne {β γ : Type} (x : MeshM α β) (f : β → MeshM α γ) (m m' : Mesh α) (v : γ)
    (hf : ∀ b m1, f b m1 ≠ (m', .ok v)) : x.bind f m ≠ (m', .ok v) := by
  unfold MeshM.bind
  cases hx : x m with
  | mk m1 r =>
    cases r with
    | ok b => exact hf b m1
    | err e => simp
    | panic q => simp

theorem pure_true_ne (m1 m' : Mesh α) : (MeshM.pure true : MeshM α Bool) m1 ≠ (m', .ok false) := by
  simp [MeshM.pure]

/-- `add_point_to_triangle` answers `false` only without touching the mesh -/
theorem addPointToTriangle_false (index : Nat) (p : V3 α) (loc : PointInTriangle) (m m' : Mesh α)
    (h : addPointToTriangle index p loc m = (m', .ok false)) : m' = m := by
  unfold addPointToTriangle at h
  simp only [Bind.bind, MeshM.bind, tgetM] at h
  cases ht : m.tget index "triangulation3d.rs:add_point_to_triangle:index" with
  | err e => rw [ht] at h; simp at h
  | panic q => rw [ht] at h; simp at h
  | ok tp =>
    rw [ht] at h
    simp only [] at h
    split at h
    · simp [MeshM.panic] at h
    · split at h
      · simp only [MeshM.pure, Prod.mk.injEq] at h; exact h.1.symm
      · split at h
        · exfalso
          revert h
          apply bind_ne
          intro edge m1
          apply bind_ne
          intro _ m2
          exact pure_true_ne m2 m'
        · split at h
          · exfalso
            revert h
            apply bind_ne
            intro _ m2
            exact pure_true_ne m2 m'
          · simp [MeshM.panic] at h

theorem panic_ne {β : Type} (site : String) (m1 m' : Mesh α) (v : β) :
    (MeshM.panic site : MeshM α β) m1 ≠ (m', .ok v) := by simp [MeshM.panic]

/-- once a pass has changed something it can only answer `true` -/
theorem refinePass_true (maxArea maxAr : α) : ∀ (fuel i : Nat) (m m' : Mesh α),
    refinePass maxArea maxAr fuel i true m ≠ (m', .ok false) := by
  intro fuel
  induction fuel with
  | zero => intro i m m'; simp [refinePass, MeshM.pure]
  | succ f ih =>
    intro i m m'
    unfold refinePass
    simp only [Bind.bind]
    apply bind_ne
    intro tp m1
    split
    · exact panic_ne _ _ _ _
    · split
      · exact ih _ _ _
      · split
        · apply bind_ne; intro b m2
          obtain ⟨s, sI⟩ := b
          apply bind_ne; intro e m3
          apply bind_ne; intro _ m4
          apply bind_ne; intro _ m5
          exact ih _ _ _
        · split
          · apply bind_ne; intro r m2
            cases r with
            | some q =>
              obtain ⟨index, loc⟩ := q
              simp only []
              apply bind_ne; intro did m3
              cases did with
              | true => simp only [if_true]; apply bind_ne; intro _ m4; exact ih _ _ _
              | false => simp only [Bool.false_eq_true, if_false]; exact ih _ _ _
            | none =>
              simp only []
              apply bind_ne; intro tp2 m3
              apply bind_ne; intro did m4
              cases did with
              | true => simp only [if_true]; apply bind_ne; intro _ m5; exact ih _ _ _
              | false => simp only [Bool.false_eq_true, if_false]; exact ih _ _ _
          · exact ih _ _ _

/-- what a pass that changed nothing has checked about a slot -/
def SlotOk (maxAr : α) (m : Mesh α) (j : Nat) : Prop :=
  ∃ tp, m.triangles[j]? = some tp ∧ tp.valid = true ∧
    ((tp.triangle.area <. (1e-3 : α)) = true ∨ (tp.aspectRatio >. maxAr) = false)

theorem findPoint_state (c : V3 α) (m : Mesh α) : (findPoint c m).1 = m := by
  simp [findPoint, MeshM.readR]

/-- inversion of a successful sequence -/
theorem bind_ok_inv {β γ : Type} (x : MeshM α β) (f : β → MeshM α γ) (m m' : Mesh α) (v : γ)
    (h : x.bind f m = (m', .ok v)) : ∃ b m1, x m = (m1, .ok b) ∧ f b m1 = (m', .ok v) := by
  unfold MeshM.bind at h
  cases hx : x m with
  | mk m1 r =>
    rw [hx] at h
    cases r with
    | ok b => exact ⟨b, m1, rfl, h⟩
    | err e => simp at h
    | panic q => simp at h

theorem tgetM_ok_inv (i : Nat) (site : String) (m m1 : Mesh α) (tp : TriPiece α)
    (h : tgetM i site m = (m1, .ok tp)) : m1 = m ∧ m.triangles[i]? = some tp := by
  simp only [tgetM, tget, Prod.mk.injEq] at h
  refine ⟨h.1.symm, ?_⟩
  cases ht : m.triangles[i]? with
  | none => rw [ht] at h; simp at h
  | some t => rw [ht] at h; simp at h; rw [h.2]

/-- **a pass that answers "nothing changed" left the mesh untouched, and every slot it visited is a live triangle that is
    either below the area floor or within the aspect-ratio bound** -/
theorem refinePass_false (maxArea maxAr : α) : ∀ (fuel i : Nat) (m m' : Mesh α),
    refinePass maxArea maxAr fuel i false m = (m', .ok false) →
      m' = m ∧ ∀ j, i ≤ j → j < i + fuel → SlotOk maxAr m j := by
  intro fuel
  induction fuel with
  | zero =>
    intro i m m' h
    simp only [refinePass, MeshM.pure, Prod.mk.injEq] at h
    exact ⟨h.1.symm, fun j h1 h2 => by omega⟩
  | succ f ih =>
    intro i m m' h
    unfold refinePass at h
    simp only [Bind.bind] at h
    obtain ⟨tp, m1, htg, hnew⟩ := bind_ok_inv _ _ _ _ _ h
    clear h
    have h := hnew
    clear hnew
    obtain ⟨hm1, ht⟩ := tgetM_ok_inv _ _ _ _ _ htg
    subst hm1
    have step : ∀ (hm : refinePass maxArea maxAr f (i + 1) false m1 = (m', .ok false))
        (hok : tp.valid = true ∧ ((tp.triangle.area <. (1e-3 : α)) = true ∨ (tp.aspectRatio >. maxAr) = false)),
        m' = m1 ∧ ∀ j, i ≤ j → j < i + (f + 1) → SlotOk maxAr m1 j := by
      intro hm hok
      obtain ⟨e1, e2⟩ := ih (i + 1) m1 m' hm
      refine ⟨e1, fun j h1 h2 => ?_⟩
      by_cases hj : j = i
      · subst hj; exact ⟨tp, ht, hok.1, hok.2⟩
      · exact e2 j (by omega) (by omega)
    by_cases hv : tp.valid = true
    · have hv' : ¬ ((!tp.valid) = true) := by simp [hv]
      rw [if_neg hv'] at h
      by_cases ha : (tp.triangle.area <. (1e-3 : α)) = true
      · rw [if_pos ha] at h
        exact step h ⟨hv, Or.inl ha⟩
      · rw [if_neg ha] at h
        by_cases hr : (tp.aspectRatio >. maxAr) = true
        · exfalso
          rw [if_pos hr] at h
          revert h
          apply bind_ne; intro b m2
          obtain ⟨s, sI⟩ := b
          apply bind_ne; intro e m3
          apply bind_ne; intro _ m4
          apply bind_ne; intro _ m5
          exact refinePass_true _ _ _ _ _ _
        · have hr' : (tp.aspectRatio >. maxAr) = false := by simpa using hr
          rw [if_neg hr] at h
          by_cases hb : (tp.triangle.area >. maxArea) = true
          · rw [if_pos hb] at h
            obtain ⟨r, mf, hfp, hnew⟩ := bind_ok_inv _ _ _ _ _ h
            clear h
            have h := hnew
            clear hnew
            have hfs : mf = m1 := by
              have := findPoint_state tp.circumcenter m1; rw [hfp] at this; exact this
            subst hfs
            cases r with
            | some q =>
              obtain ⟨index, loc⟩ := q
              simp only [] at h
              obtain ⟨did, ma, hap, hnew⟩ := bind_ok_inv _ _ _ _ _ h
              clear h
              have h := hnew
              clear hnew
              cases did with
              | true =>
                exfalso
                simp only [if_true] at h
                revert h
                apply bind_ne; intro _ m4
                exact refinePass_true _ _ _ _ _ _
              | false =>
                simp only [Bool.false_eq_true, if_false] at h
                have := addPointToTriangle_false index tp.circumcenter loc mf ma hap
                subst this
                exact step h ⟨hv, Or.inr hr'⟩
            | none =>
              simp only [] at h
              obtain ⟨tp2, m2, htg2, hnew⟩ := bind_ok_inv _ _ _ _ _ h
              clear h
              have h := hnew
              clear hnew
              obtain ⟨hm2, _⟩ := tgetM_ok_inv _ _ _ _ _ htg2
              subst hm2
              obtain ⟨did, ma, hap, hnew⟩ := bind_ok_inv _ _ _ _ _ h
              clear h
              have h := hnew
              clear hnew
              cases did with
              | true =>
                exfalso
                simp only [if_true] at h
                revert h
                apply bind_ne; intro _ m4
                exact refinePass_true _ _ _ _ _ _
              | false =>
                simp only [Bool.false_eq_true, if_false] at h
                have := addPointToTriangle_false i tp2.centroid PointInTriangle.inside m2 ma hap
                subst this
                exact step h ⟨hv, Or.inr hr'⟩
          · rw [if_neg hb] at h
            exact step h ⟨hv, Or.inr hr'⟩
    · have hv' : ((!tp.valid) = true) := by simpa using hv
      rw [if_pos hv'] at h
      simp [MeshM.panic] at h

/-- **when `refine` succeeds, every slot of the resulting mesh is a live triangle that is below the area floor or within
    the requested aspect-ratio bound** -/
theorem refine_ok_bound (maxArea maxAr : α) : ∀ (fuel : Nat) (m m' : Mesh α),
    refine maxArea maxAr fuel m = (m', .ok ()) →
      ∀ j, j < m'.triangles.size → SlotOk maxAr m' j := by
  intro fuel
  induction fuel with
  | zero => intro m m' h; simp [refine, MeshM.err] at h
  | succ f ih =>
    intro m m' h
    unfold refine at h
    simp only [Bind.bind] at h
    obtain ⟨n, m1, hn, hnew⟩ := bind_ok_inv _ _ _ _ _ h
    clear h
    have h := hnew
    clear hnew
    simp only [MeshM.readR, Prod.mk.injEq, Res.ok.injEq] at hn
    obtain ⟨hm1, hn⟩ := hn
    subst hm1
    obtain ⟨anyChanges, m2, hp, hnew⟩ := bind_ok_inv _ _ _ _ _ h
    clear h
    have h := hnew
    clear hnew
    cases anyChanges with
    | true =>
      simp only [if_true] at h
      exact ih m2 m' h
    | false =>
      simp only [Bool.false_eq_true, if_false, MeshM.pure, Prod.mk.injEq] at h
      obtain ⟨hm2, hall⟩ := refinePass_false maxArea maxAr n 0 m m2 hp
      have : m' = m := by rw [← h.1, hm2]
      subst this
      intro j hj
      exact hall j (Nat.zero_le _) (by rw [← hn]; simpa [nTriangles] using hj)

/-- the same for `mesh_polygon` -/
theorem meshPolygon_ok_bound (poly : Polygon α) (maxArea maxAr : α) (fuel : Nat) (m' : Mesh α)
    (h : meshPolygon poly maxArea maxAr fuel = .ok m') :
    ∀ j, j < m'.triangles.size → SlotOk maxAr m' j := by
  unfold meshPolygon at h
  cases hf : fromPolygon poly with
  | err e => rw [hf] at h; simp [Bind.bind, Res.bind] at h
  | panic q => rw [hf] at h; simp [Bind.bind, Res.bind] at h
  | ok t =>
    rw [hf] at h
    simp only [Bind.bind, Res.bind] at h
    cases hr : refine maxArea maxAr fuel t with
    | mk t' r =>
      rw [hr] at h
      cases r with
      | err e => simp at h
      | panic q => simp at h
      | ok u =>
        simp only [Res.ok.injEq] at h
        subst h
        exact refine_ok_bound maxArea maxAr fuel t t' hr

end G3d.C18
