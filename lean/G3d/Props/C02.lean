import G3d.Props.C06
import G3d.Model.Prim
import G3d.Proofs.VecLemmas
import Mathlib.Tactic.FieldSimp
import Mathlib.Tactic.LinearCombination
/-!
# C02 — every reported ray hit is a true hit (exact semantics)

The model is instantiated at ℝ.  `mt_sound`: a hit reported by `intersect_triangle` lies on the ray at a parameter
`t > 100·EPSILON`, *is* the point with the returned barycentric coordinates, and those satisfy `0 ≤ u`, `0 ≤ v`,
`u + v ≤ 1` (the last conjunct is false for the pre-repair code).  `plane_sound`, `disk_sound` likewise.
Sphere and cylinder: see `Props/C02b.lean`.
-/
namespace G3d.C02
open G3d Num C06

noncomputable section

theorem tiny_pos : (0 : ℝ) < (tiny100 : ℝ) := by
  have := eps_bounds.1
  simp only [tiny100]; num_real; positivity

/-- `intersect_triangle` with the range tests written out -/
theorem intersectTriangle_eq {α : Type} [Num α] (ray : Ray α) (vertex0 vertex1 vertex2 : V3 α) :
    intersectTriangle ray vertex0 vertex1 vertex2 =
      (let edge1 := vertex1 - vertex0
       let edge2 := vertex2 - vertex0
       let h := ray.direction.cross edge2
       let a := edge1.dot h
       let tiny : α := tiny100
       if Num.abs a <=. tiny * edge1.length * h.length then none else
       let f : α := 1 / a
       let s := ray.origin - vertex0
       let u := f * (s.dot h)
       if !((0 : α) <=. u && u <=. (1 : α)) then none else
       let q := s.cross edge1
       let v := f * (ray.direction.dot q)
       if !((0 : α) <=. v && v <=. (1 : α)) || (u + v) >. (1 : α) then none else
       let t := f * (edge2.dot q)
       if t >. tiny then some (ray.project t, u, v) else none) := rfl

/-- **Möller–Trumbore is sound** -/
theorem mt_sound {ray : Ray ℝ} {v0 v1 v2 p : V3 ℝ} {u v : ℝ}
    (h : intersectTriangle ray v0 v1 v2 = some (p, u, v)) :
    ∃ t : ℝ, (tiny100 : ℝ) < t ∧ p = ray.project t ∧
      p = v0 + (v1 - v0).smul u + (v2 - v0).smul v ∧ 0 ≤ u ∧ 0 ≤ v ∧ u + v ≤ 1 := by
  rw [intersectTriangle_eq] at h
  simp only [] at h
  split_ifs at h with h1 h2 h3 h4
  simp only [Option.some.injEq, Prod.mk.injEq] at h
  obtain ⟨hp, hu, hv⟩ := h
  have tp := tiny_pos
  generalize (tiny100 : ℝ) = tiny at *
  -- name the scalar quantities
  obtain ⟨a, ha⟩ : ∃ a, a = (v1 - v0).dot (ray.direction.cross (v2 - v0)) := ⟨_, rfl⟩
  obtain ⟨su, hsu⟩ : ∃ su, su = (ray.origin - v0).dot (ray.direction.cross (v2 - v0)) := ⟨_, rfl⟩
  obtain ⟨sv, hsv⟩ : ∃ sv, sv = ray.direction.dot ((ray.origin - v0).cross (v1 - v0)) := ⟨_, rfl⟩
  obtain ⟨st, hst⟩ : ∃ st, st = (v2 - v0).dot ((ray.origin - v0).cross (v1 - v0)) := ⟨_, rfl⟩
  rw [← ha] at h1 h2 h3 h4 hp hu hv
  rw [← hsu] at h2 h3 hu
  rw [← hsv] at h3 hv
  rw [← hst] at h4 hp
  bool_real_at h1; bool_real_at h2; bool_real_at h3; bool_real_at h4
  num_real_at h1; num_real_at h2; num_real_at h3; num_real_at h4; num_real_at hu; num_real_at hv
  have hane : a ≠ 0 := by
    intro h0
    rw [h0] at h1
    have hL1 : 0 ≤ (v1 - v0).length := by simp only [V3.length, real_sqrt]; exact Real.sqrt_nonneg _
    have hL2 : 0 ≤ (ray.direction.cross (v2 - v0)).length := by simp only [V3.length, real_sqrt]; exact Real.sqrt_nonneg _
    have : 0 ≤ tiny * (v1 - v0).length * (ray.direction.cross (v2 - v0)).length :=
      mul_nonneg (mul_nonneg tp.le hL1) hL2
    simp only [abs_zero] at h1
    linarith
  have h2' : 0 ≤ 1 / a * su ∧ 1 / a * su ≤ 1 := by
    by_contra hc
    exact h2 (fun h0 => by by_contra h1'; exact hc ⟨h0, not_lt.1 h1'⟩)
  have h3' : 0 ≤ 1 / a * sv ∧ 1 / a * sv ≤ 1 := by
    by_contra hc
    exact h3.1 (fun h0 => by by_contra h1'; exact hc ⟨h0, not_lt.1 h1'⟩)
  refine ⟨1 / a * st, h4, by rw [← hp]; num_real, ?_, by rw [← hu]; exact h2'.1, by rw [← hv]; exact h3'.1,
    by rw [← hu, ← hv]; exact h3.2⟩
  rw [← hp, ← hu, ← hv]
  obtain ⟨⟨ox, oy, oz⟩, ⟨dx, dy, dz⟩⟩ := ray
  obtain ⟨x0, y0, z0⟩ := v0; obtain ⟨x1, y1, z1⟩ := v1; obtain ⟨x2, y2, z2⟩ := v2
  vec_real_at ha; vec_real_at hsu; vec_real_at hsv; vec_real_at hst
  vec_real
  subst hsu hsv hst
  refine ⟨?_, ?_, ?_⟩ <;> field_simp <;> rw [ha] <;> ring

/-! ## planes and disks -/

theorem eps_pos : (0 : ℝ) < (Num.eps : ℝ) := eps_bounds.1

/-- a reported plane hit is on the plane (through `c`, normal `n̂`), at a parameter `t ≥ 0` -/
theorem plane_sound {c n : V3 ℝ} {ray : Ray ℝ} {t : ℝ}
    (h : (Plane.new c n).intersect ray = some t) :
    0 ≤ t ∧ n.normalize.dot (ray.project t - c) = 0 := by
  unfold Plane.intersect Plane.new at h
  simp only [] at h
  split_ifs at h with h1 h2
  simp only [Option.some.injEq] at h
  bool_real_at h1; bool_real_at h2
  have ep := eps_pos
  generalize (Num.eps : ℝ) = e at *
  obtain ⟨m, hm⟩ : ∃ m, m = n.normalize := ⟨_, rfl⟩
  rw [← hm] at h h1 h2 ⊢
  num_real_at h1; num_real_at h2; num_real_at h
  have hden : m.dot ray.direction ≠ 0 := by
    intro h0; rw [h0] at h1; simp at h1; linarith
  refine ⟨by rw [← h]; exact h2, ?_⟩
  subst h
  obtain ⟨⟨ox, oy, oz⟩, ⟨dx, dy, dz⟩⟩ := ray
  obtain ⟨mx, my, mz⟩ := m; obtain ⟨cx, cy, cz⟩ := c
  vec_real_at hden
  vec_real
  field_simp
  ring

/-- a reported disk hit lies on the ray (`t ≥ 0`), in the disk's plane, between the inner and outer radius, and within
    the angular range -/
theorem disk_sound {s : Disk ℝ} {ray : Ray ℝ} {oe de phit : V3 ℝ} {phi : ℝ}
    (h : s.basicIntersection ray oe de = some (phit, phi)) :
    ∃ t : ℝ, 0 ≤ t ∧ phit = ray.project t ∧ s.normal.normalize.dot (phit - s.centre) = 0 ∧
      s.innerRadius * s.innerRadius ≤ (phit - s.centre).lengthSquared ∧
      (phit - s.centre).lengthSquared ≤ s.radius * s.radius ∧ phi ≤ s.phiMax := by
  unfold Disk.basicIntersection at h
  simp only [] at h
  split at h
  · exact absurd h (by simp)
  · rename_i t ht
    obtain ⟨t0, hplane⟩ := plane_sound ht
    split_ifs at h <;>
    · rename_i h1 h2 h3
      simp only [Option.some.injEq, Prod.mk.injEq] at h
      obtain ⟨hp, hphi⟩ := h
      bool_real_at h1; bool_real_at h3
      num_real_at h1
      subst hp
      refine ⟨t, t0, rfl, hplane, h1.2, h1.1, ?_⟩
      rw [← hphi]; exact h3

end
end G3d.C02
