import G3d.Props.C10Rigid
import G3d.Props.C13
/-!
# C13 — hit normals under rigid chains (exact semantics)

For every chain of translations and rotations composed as the crate composes them (`new(); t *= e₁; …`):
`rigid_normal_eq_vec` — `transform_normal` (the inverse transpose) coincides with `transform_vec`, because the inverse transpose
of a rotation is the rotation itself; `unit_normal_of_rigid_chain` — a unit normal stays a unit normal.
-/
namespace G3d.C13
open G3d Num C06 C10

noncomputable section

theorem dot_self_zero (d : V3 ℝ) (h : d.dot d = 0) : d = ⟨0, 0, 0⟩ := by
  have hx : d.x = 0 := by simp only [V3.dot] at h; num_real_at h; nlinarith [sq_nonneg d.x, sq_nonneg d.y, sq_nonneg d.z]
  have hy : d.y = 0 := by simp only [V3.dot] at h; num_real_at h; nlinarith [sq_nonneg d.x, sq_nonneg d.y, sq_nonneg d.z]
  have hz : d.z = 0 := by simp only [V3.dot] at h; num_real_at h; nlinarith [sq_nonneg d.x, sq_nonneg d.y, sq_nonneg d.z]
  apply V3.ext' <;> assumption

/-- **for a rigid transform with a true inverse, `transform_normal` is `transform_vec`**: the inverse transpose of a rotation is
    the rotation itself -/
theorem rigid_normal_eq_vec {t : Transform ℝ} (hi : Inv t) (hr : IsRigid t) (n : V3 ℝ) :
    t.transformNormal n = t.transformVec n := by
  -- d = M⁻ᵀ n − M n is perpendicular to every M v, in particular to itself
  have hperp : ∀ v, (t.transformNormal n - t.transformVec n).dot (t.transformVec v) = 0 := by
    intro v
    have h1 := normal_perp hi n v
    have h2 : (t.transformVec n).dot (t.transformVec v) = n.dot v := hr.2.2.1 n v
    have : (t.transformNormal n - t.transformVec n).dot (t.transformVec v)
        = (t.transformNormal n).dot (t.transformVec v) - (t.transformVec n).dot (t.transformVec v) := by vec_real; ring
    rw [this, h1, h2]; ring
  have hd := hperp (t.invTransformVec (t.transformNormal n - t.transformVec n))
  rw [roundtrip_vec' hi] at hd
  have hz := dot_self_zero _ hd
  have : t.transformNormal n = (t.transformNormal n - t.transformVec n) + t.transformVec n := by
    apply V3.ext' <;> simp only [V3.add_def, V3.sub_def] <;> num_real <;> ring
  rw [this, hz]
  apply V3.ext' <;> simp only [V3.add_def] <;> num_real <;> ring

/-- **every chain of translations and rotations keeps a unit normal a unit normal** (and carries it like a vector) -/
theorem unit_normal_of_rigid_chain (l : List Elem) (hl : ∀ e ∈ l, Elem.Rigid e) (n : V3 ℝ) (hn : n.dot n = 1) :
    ((chain l).transformNormal n).dot ((chain l).transformNormal n) = 1 ∧
    (chain l).transformNormal n = (chain l).transformVec n := by
  have hok : ∀ e ∈ l, e.Ok := by
    intro e he
    have := hl e he
    cases e <;> simp_all [Elem.Rigid, Elem.Ok]
  have hi := inv_chain l hok
  have hr : IsRigid (chain l) := isRigid_chainFrom isRigid_new l hl
  have e := rigid_normal_eq_vec hi hr n
  refine ⟨?_, e⟩
  rw [e]
  show ((chain l).m.mulVec n).dot ((chain l).m.mulVec n) = 1
  rw [hr.2.2.1]; exact hn

end
end G3d.C13
