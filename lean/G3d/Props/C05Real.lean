import G3d.Props.C05
import G3d.Props.C19
/-!
# C05 over ℝ — a point on an edge is "on the outline"

`containsPoint_on_segment` — for a point `p = a + t (b − a)`, `0 ≤ t ≤ 1`, that does not coincide (for `compare`) with both end
points at once, `Segment3D::contains_point` answers `true`: the collinearity test sees a zero cross product, the distance test a
zero distance, and the interpolation along the dominant component returns `t` itself.  With `C05.testPointLoop_on_edge` this is
the "inside **or on** its outline" half of the property in exact semantics: an in-plane point lying on edge `k` of a closed loop,
with no earlier edge answering `Err`, tests inside.
`containsPoint_on_line` / `containsPoint_beyond_ends` / `containsPoint_true_imp` complete the picture for C19: on the supporting
line the answer is exactly `0 ≤ t ≤ 1`, beyond either end it is `false`, and a `true` means: within `1e-5` of the line and
parameter in `[0, 1]` along the dominant coordinate.
-/
namespace G3d.C05
open G3d Num

noncomputable section

theorem abs_lt_of_compare {a b : V3 ℝ} (h : a.compare b = true) :
    |a.x - b.x| < 1e-5 ∧ |a.y - b.y| < 1e-5 ∧ |a.z - b.z| < 1e-5 := by
  unfold V3.compare at h
  simp only [real_lt_dec, Bool.and_eq_true, decide_eq_true_eq] at h
  num_real_at h
  exact ⟨h.1.1, h.1.2, h.2⟩

/-- **a point of the closed segment is contained in it** -/
theorem containsPoint_on_segment (a b : V3 ℝ) (t : ℝ) (h0 : 0 ≤ t) (h1 : t ≤ 1)
    (hne : ¬ ((a + (b - a).smul t).compare a = true ∧ (a + (b - a).smul t).compare b = true)) :
    (Segment.new a b).containsPoint (a + (b - a).smul t) = .ok true := by
  obtain ⟨p, hp⟩ : ∃ p, p = a + (b - a).smul t := ⟨_, rfl⟩
  rw [← hp] at hne ⊢
  have hpx : p.x = a.x + (b.x - a.x) * t := by rw [hp]; vec_real
  have hpy : p.y = a.y + (b.y - a.y) * t := by rw [hp]; vec_real
  have hpz : p.z = a.z + (b.z - a.z) * t := by rw [hp]; vec_real
  -- collinearity: never an `Err`, always `true`
  have hcol : p.isCollinearR a b = .ok true := by
    unfold V3.isCollinearR V3.isCollinear
    have hnn : (p.compare a && p.compare b) = false := by
      cases h1' : p.compare a <;> cases h2' : p.compare b <;> simp_all
    simp only [hnn, Bool.false_eq_true, if_false]
    by_cases hany : (p.compare a || p.compare b || a.compare b) = true
    · simp [hany]
    · simp only [hany]
      have hz : ((a - p).cross (b - a)).length = 0 := by
        have : ((a - p).cross (b - a)).lengthSquared = 0 := by
          unfold V3.lengthSquared; vec_real; rw [hpx, hpy, hpz]; ring
        simp only [V3.length, real_sqrt, this, Real.sqrt_zero]
      simp only [hz, real_lt_dec]
      num_real
      norm_num
  -- the end points are at least `ε` apart in some coordinate (else `p` would coincide with both)
  have hsep : (2:ℝ)⁻¹ ^ 52 < |b.x - a.x| ∨ (2:ℝ)⁻¹ ^ 52 < |b.y - a.y| ∨ (2:ℝ)⁻¹ ^ 52 < |b.z - a.z| := by
    by_contra hc
    push Not at hc
    obtain ⟨cx, cy, cz⟩ := hc
    apply hne
    have heps : (2:ℝ)⁻¹ ^ 52 < 1e-5 := by norm_num
    have bound : ∀ (u v s : ℝ), |v - u| ≤ (2:ℝ)⁻¹ ^ 52 → 0 ≤ s → s ≤ 1 →
        |u + (v - u) * s - u| < 1e-5 ∧ |u + (v - u) * s - v| < 1e-5 := by
      intro u v s hv hs0 hs1
      have e1 : u + (v - u) * s - u = (v - u) * s := by ring
      have e2 : u + (v - u) * s - v = -((v - u) * (1 - s)) := by ring
      rw [e1, e2, abs_neg, abs_mul, abs_mul, abs_of_nonneg hs0, abs_of_nonneg (by linarith : 0 ≤ 1 - s)]
      constructor
      · nlinarith [abs_nonneg (v - u)]
      · nlinarith [abs_nonneg (v - u)]
    unfold V3.compare
    simp only [real_lt_dec, Bool.and_eq_true, decide_eq_true_eq]
    num_real
    rw [hpx, hpy, hpz]
    obtain ⟨x1, x2⟩ := bound a.x b.x t cx h0 h1
    obtain ⟨y1, y2⟩ := bound a.y b.y t cy h0 h1
    obtain ⟨z1, z2⟩ := bound a.z b.z t cz h0 h1
    exact ⟨⟨⟨x1, y1⟩, z1⟩, ⟨x2, y2⟩, z2⟩
  show Segment.containsPoint ⟨a, b, a.distance b⟩ p = .ok true
  unfold Segment.containsPoint
  dsimp only
  rw [hcol]
  dsimp only
  -- distance test: zero distance
  have hz : ((p - a).cross (b - a)).length = 0 := by
    have : ((p - a).cross (b - a)).lengthSquared = 0 := by
      unfold V3.lengthSquared; vec_real; rw [hpx, hpy, hpz]; ring
    simp only [V3.length, real_sqrt, this, Real.sqrt_zero]
  have hlen : 0 ≤ (b - a).length := by simp only [V3.length, real_sqrt]; exact Real.sqrt_nonneg _
  rw [if_neg (by
    simp only [real_gt_dec, decide_eq_true_eq, not_lt, hz]
    num_real
    positivity)]
  -- interpolation along the dominant component gives back `t`
  have quot : ∀ (u v : ℝ), v - u ≠ 0 → (u + (v - u) * t - u) / (v - u) = t := by
    intro u v hv; field_simp; ring
  simp only [real_gt_dec, real_ge_dec, inUnitClosed, real_le_dec, Bool.and_eq_true, decide_eq_true_eq]
  num_real
  simp only [V3.sub_def]
  num_real
  simp only [hpx, hpy, hpz]
  split_ifs with c1 c2 c3
  · have : b.x - a.x ≠ 0 := by intro h; rw [h] at c1; simp at c1; linarith [c1.1.1, show (0:ℝ) < (2:ℝ)⁻¹ ^ 52 by positivity]
    simp only [quot a.x b.x this]; simp [h0, h1]
  · have : b.y - a.y ≠ 0 := by intro h; rw [h] at c2; simp at c2; linarith [c2.1, show (0:ℝ) < (2:ℝ)⁻¹ ^ 52 by positivity]
    simp only [quot a.y b.y this]; simp [h0, h1]
  · have : b.z - a.z ≠ 0 := by intro h; rw [h] at c3; simp at c3; linarith [show (0:ℝ) < (2:ℝ)⁻¹ ^ 52 by positivity]
    simp only [quot a.z b.z this]; simp [h0, h1]
  · -- impossible: the dominant coordinate difference exceeds ε
    exfalso
    rcases hsep with hx | hy | hz
    · by_cases hxd : |b.y - a.y| ≤ |b.x - a.x| ∧ |b.z - a.z| ≤ |b.x - a.x|
      · exact c1 ⟨⟨hx, hxd.1⟩, hxd.2⟩
      · by_cases hyz : |b.z - a.z| ≤ |b.y - a.y|
        · have : (2:ℝ)⁻¹ ^ 52 < |b.y - a.y| := by
            by_contra hh; push Not at hh
            apply hxd; constructor <;> linarith
          exact c2 ⟨this, hyz⟩
        · push Not at hyz
          have : (2:ℝ)⁻¹ ^ 52 < |b.z - a.z| := by
            by_contra hh; push Not at hh
            apply hxd; constructor <;> linarith
          exact c3 this
    · by_cases hyz : |b.z - a.z| ≤ |b.y - a.y|
      · exact c2 ⟨hy, hyz⟩
      · push Not at hyz; exact c3 (lt_trans hy hyz)
    · exact c3 hz

/-- **a point of the supporting line is contained exactly when its parameter is in `[0, 1]`** (end points at least `ε` apart
    in some coordinate; the point does not `compare` equal to both ends at once) -/
theorem containsPoint_on_line (a b : V3 ℝ) (t : ℝ)
    (hne : ¬ ((a + (b - a).smul t).compare a = true ∧ (a + (b - a).smul t).compare b = true))
    (hsep : (2:ℝ)⁻¹ ^ 52 < |b.x - a.x| ∨ (2:ℝ)⁻¹ ^ 52 < |b.y - a.y| ∨ (2:ℝ)⁻¹ ^ 52 < |b.z - a.z|) :
    (Segment.new a b).containsPoint (a + (b - a).smul t) = .ok (decide (0 ≤ t ∧ t ≤ 1)) := by
  obtain ⟨p, hp⟩ : ∃ p, p = a + (b - a).smul t := ⟨_, rfl⟩
  rw [← hp] at hne ⊢
  have hpx : p.x = a.x + (b.x - a.x) * t := by rw [hp]; vec_real
  have hpy : p.y = a.y + (b.y - a.y) * t := by rw [hp]; vec_real
  have hpz : p.z = a.z + (b.z - a.z) * t := by rw [hp]; vec_real
  -- collinearity: never an `Err`, always `true`
  have hcol : p.isCollinearR a b = .ok true := by
    unfold V3.isCollinearR V3.isCollinear
    have hnn : (p.compare a && p.compare b) = false := by
      cases h1' : p.compare a <;> cases h2' : p.compare b <;> simp_all
    simp only [hnn, Bool.false_eq_true, if_false]
    by_cases hany : (p.compare a || p.compare b || a.compare b) = true
    · simp [hany]
    · simp only [hany]
      have hz : ((a - p).cross (b - a)).length = 0 := by
        have : ((a - p).cross (b - a)).lengthSquared = 0 := by
          unfold V3.lengthSquared; vec_real; rw [hpx, hpy, hpz]; ring
        simp only [V3.length, real_sqrt, this, Real.sqrt_zero]
      simp only [hz, real_lt_dec]
      num_real
      norm_num
  show Segment.containsPoint ⟨a, b, a.distance b⟩ p = .ok (decide (0 ≤ t ∧ t ≤ 1))
  unfold Segment.containsPoint
  dsimp only
  rw [hcol]
  dsimp only
  -- distance test: zero distance
  have hz : ((p - a).cross (b - a)).length = 0 := by
    have : ((p - a).cross (b - a)).lengthSquared = 0 := by
      unfold V3.lengthSquared; vec_real; rw [hpx, hpy, hpz]; ring
    simp only [V3.length, real_sqrt, this, Real.sqrt_zero]
  have hlen : 0 ≤ (b - a).length := by simp only [V3.length, real_sqrt]; exact Real.sqrt_nonneg _
  rw [if_neg (by
    simp only [real_gt_dec, decide_eq_true_eq, not_lt, hz]
    num_real
    positivity)]
  -- interpolation along the dominant component gives back `t`
  have quot : ∀ (u v : ℝ), v - u ≠ 0 → (u + (v - u) * t - u) / (v - u) = t := by
    intro u v hv; field_simp; ring
  simp only [real_gt_dec, real_ge_dec, inUnitClosed, real_le_dec, Bool.and_eq_true, decide_eq_true_eq]
  num_real
  simp only [V3.sub_def]
  num_real
  simp only [hpx, hpy, hpz]
  split_ifs with c1 c2 c3
  · have : b.x - a.x ≠ 0 := by intro h; rw [h] at c1; simp at c1; linarith [c1.1.1, show (0:ℝ) < (2:ℝ)⁻¹ ^ 52 by positivity]
    simp only [quot a.x b.x this]; simp [Bool.decide_and]
  · have : b.y - a.y ≠ 0 := by intro h; rw [h] at c2; simp at c2; linarith [c2.1, show (0:ℝ) < (2:ℝ)⁻¹ ^ 52 by positivity]
    simp only [quot a.y b.y this]; simp [Bool.decide_and]
  · have : b.z - a.z ≠ 0 := by intro h; rw [h] at c3; simp at c3; linarith [show (0:ℝ) < (2:ℝ)⁻¹ ^ 52 by positivity]
    simp only [quot a.z b.z this]; simp [Bool.decide_and]
  · -- impossible: the dominant coordinate difference exceeds ε
    exfalso
    rcases hsep with hx | hy | hz
    · by_cases hxd : |b.y - a.y| ≤ |b.x - a.x| ∧ |b.z - a.z| ≤ |b.x - a.x|
      · exact c1 ⟨⟨hx, hxd.1⟩, hxd.2⟩
      · by_cases hyz : |b.z - a.z| ≤ |b.y - a.y|
        · have : (2:ℝ)⁻¹ ^ 52 < |b.y - a.y| := by
            by_contra hh; push Not at hh
            apply hxd; constructor <;> linarith
          exact c2 ⟨this, hyz⟩
        · push Not at hyz
          have : (2:ℝ)⁻¹ ^ 52 < |b.z - a.z| := by
            by_contra hh; push Not at hh
            apply hxd; constructor <;> linarith
          exact c3 this
    · by_cases hyz : |b.z - a.z| ≤ |b.y - a.y|
      · exact c2 ⟨hy, hyz⟩
      · push Not at hyz; exact c3 (lt_trans hy hyz)
    · exact c3 hz


/-- **a point of the supporting line beyond either end of the segment is not contained** -/
theorem containsPoint_beyond_ends (a b : V3 ℝ) (t : ℝ) (ht : t < 0 ∨ 1 < t)
    (hne : ¬ ((a + (b - a).smul t).compare a = true ∧ (a + (b - a).smul t).compare b = true))
    (hsep : (2:ℝ)⁻¹ ^ 52 < |b.x - a.x| ∨ (2:ℝ)⁻¹ ^ 52 < |b.y - a.y| ∨ (2:ℝ)⁻¹ ^ 52 < |b.z - a.z|) :
    (Segment.new a b).containsPoint (a + (b - a).smul t) = .ok false := by
  rw [containsPoint_on_line a b t hne hsep]
  have : ¬ (0 ≤ t ∧ t ≤ 1) := by rintro ⟨h0, h1⟩; rcases ht with h | h <;> linarith
  simp [this]

/-- **what a `true` of `contains_point` means**: the point is within `1e-5` of the supporting line (distance test) and its
    parameter along the dominant coordinate of the segment lies in `[0, 1]` -/
theorem containsPoint_true_imp (a b p : V3 ℝ) (h : (Segment.new a b).containsPoint p = .ok true) :
    ((p - a).cross (b - a)).length ≤ 1e-5 * (b - a).length ∧
    ((|b.y - a.y| ≤ |b.x - a.x| ∧ |b.z - a.z| ≤ |b.x - a.x| ∧ 0 ≤ (p.x - a.x) / (b.x - a.x) ∧ (p.x - a.x) / (b.x - a.x) ≤ 1) ∨
     (|b.z - a.z| ≤ |b.y - a.y| ∧ 0 ≤ (p.y - a.y) / (b.y - a.y) ∧ (p.y - a.y) / (b.y - a.y) ≤ 1) ∨
     (0 ≤ (p.z - a.z) / (b.z - a.z) ∧ (p.z - a.z) / (b.z - a.z) ≤ 1)) := by
  change Segment.containsPoint ⟨a, b, a.distance b⟩ p = .ok true at h
  unfold Segment.containsPoint at h
  dsimp only at h
  cases hc : p.isCollinearR a b with
  | err e => rw [hc] at h; cases h
  | panic e => rw [hc] at h; cases h
  | ok c =>
    rw [hc] at h
    cases c with
    | false => simp at h
    | true =>
      dsimp only at h
      split_ifs at h with hd c1 c2 c3
      · simp at h
      all_goals
        have hdist : ((p - a).cross (b - a)).length ≤ 1e-5 * (b - a).length := by
          bool_real_at hd; num_real_at hd; exact hd
      · refine ⟨hdist, Or.inl ?_⟩
        injection h with h
        bool_real_at c1; num_real_at c1
        simp only [inUnitClosed] at h
        bool_real_at h; num_real_at h
        simp only [V3.sub_def] at c1 h
        num_real_at c1; num_real_at h
        exact ⟨c1.1.2, c1.2, h.1, h.2⟩
      · refine ⟨hdist, Or.inr (Or.inl ?_)⟩
        injection h with h
        bool_real_at c2; num_real_at c2
        simp only [inUnitClosed] at h
        bool_real_at h; num_real_at h
        simp only [V3.sub_def] at c2 h
        num_real_at c2; num_real_at h
        exact ⟨c2.2, h.1, h.2⟩
      · refine ⟨hdist, Or.inr (Or.inr ?_)⟩
        injection h with h
        simp only [inUnitClosed] at h
        bool_real_at h; num_real_at h
        simp only [V3.sub_def] at h
        num_real_at h
        exact ⟨h.1, h.2⟩


/-! ## segment in segment -/

/-- a point of the line through `a1`, `b1` is collinear with them for the crate's test, when `a1`, `b1` do not `compare` equal -/
theorem isCollinearR_on_line (a1 b1 : V3 ℝ) (s : ℝ) (hab : a1.compare b1 = false) :
    a1.isCollinearR b1 (a1 + (b1 - a1).smul s) = .ok true := by
  obtain ⟨q, hq⟩ : ∃ q, q = a1 + (b1 - a1).smul s := ⟨_, rfl⟩
  rw [← hq]
  have hqx : q.x = a1.x + (b1.x - a1.x) * s := by rw [hq]; vec_real
  have hqy : q.y = a1.y + (b1.y - a1.y) * s := by rw [hq]; vec_real
  have hqz : q.z = a1.z + (b1.z - a1.z) * s := by rw [hq]; vec_real
  unfold V3.isCollinearR V3.isCollinear
  simp only [hab, Bool.false_and, Bool.false_eq_true, if_false, Bool.false_or]
  by_cases hany : (a1.compare q || b1.compare q) = true
  · simp [hany]
  · simp only [hany]
    have hz : ((b1 - a1).cross (q - b1)).length = 0 := by
      have : ((b1 - a1).cross (q - b1)).lengthSquared = 0 := by
        unfold V3.lengthSquared; vec_real; rw [hqx, hqy, hqz]; ring
      simp only [V3.length, real_sqrt, this, Real.sqrt_zero]
    simp only [hz, real_lt_dec]
    num_real
    norm_num

/-- **segment-in-segment on the supporting line**: for a segment `a1 b1` whose ends do not `compare` equal and whose dominant
    coordinate difference exceeds `1e-6`, a second segment with both ends on the line, at parameters `s` and `t`, is contained
    exactly when both parameters lie in `[0, 1]` -/
theorem contains_on_line (a1 b1 : V3 ℝ) (s t : ℝ) (hab : a1.compare b1 = false)
    (hlen : ¬ (a1.distance b1 < 1e-6))
    (hsep : 1e-6 < |b1.x - a1.x| ∨ 1e-6 < |b1.y - a1.y| ∨ 1e-6 < |b1.z - a1.z|) :
    (Segment.new a1 b1).contains (Segment.new (a1 + (b1 - a1).smul s) (a1 + (b1 - a1).smul t))
      = .ok (decide ((0 ≤ s ∧ s ≤ 1) ∧ (0 ≤ t ∧ t ≤ 1))) := by
  have c1 := isCollinearR_on_line a1 b1 s hab
  have c2 := isCollinearR_on_line a1 b1 t hab
  obtain ⟨p, hp⟩ : ∃ p, p = a1 + (b1 - a1).smul s := ⟨_, rfl⟩
  obtain ⟨q, hq⟩ : ∃ q, q = a1 + (b1 - a1).smul t := ⟨_, rfl⟩
  rw [← hp] at c1 ⊢
  rw [← hq] at c2 ⊢
  have hpx : p.x = a1.x + (b1.x - a1.x) * s := by rw [hp]; vec_real
  have hpy : p.y = a1.y + (b1.y - a1.y) * s := by rw [hp]; vec_real
  have hpz : p.z = a1.z + (b1.z - a1.z) * s := by rw [hp]; vec_real
  have hqx : q.x = a1.x + (b1.x - a1.x) * t := by rw [hq]; vec_real
  have hqy : q.y = a1.y + (b1.y - a1.y) * t := by rw [hq]; vec_real
  have hqz : q.z = a1.z + (b1.z - a1.z) * t := by rw [hq]; vec_real
  show Segment.contains ⟨a1, b1, a1.distance b1⟩ ⟨p, q, p.distance q⟩ = _
  unfold Segment.contains
  dsimp only
  split
  · rename_i hc0
    exfalso
    bool_real_at hc0; num_real_at hc0
    exact hlen hc0
  rw [c1]
  dsimp only
  rw [c2]
  dsimp only
  have quot : ∀ (u v r : ℝ), v - u ≠ 0 → (u + (v - u) * r - u) / (v - u) = r := by
    intro u v r hv; field_simp; ring
  simp only [real_gt_dec, real_ge_dec, inUnitClosed, real_le_dec, Bool.and_eq_true, decide_eq_true_eq]
  num_real
  simp only [V3.sub_def]
  num_real
  simp only [hpx, hpy, hpz, hqx, hqy, hqz]
  split_ifs with d1 d2 d3
  · have : b1.x - a1.x ≠ 0 := by intro h; rw [h] at d1; simp at d1; linarith [d1.1.1]
    simp only [quot a1.x b1.x _ this]; simp [Bool.decide_and]
  · have : b1.y - a1.y ≠ 0 := by intro h; rw [h] at d2; simp at d2; linarith [d2.1]
    simp only [quot a1.y b1.y _ this]; simp [Bool.decide_and]
  · have : b1.z - a1.z ≠ 0 := by intro h; rw [h] at d3; simp at d3; linarith
    simp only [quot a1.z b1.z _ this]; simp [Bool.decide_and]
  · exfalso
    rcases hsep with hx | hy | hz
    · by_cases hxd : |b1.y - a1.y| ≤ |b1.x - a1.x| ∧ |b1.z - a1.z| ≤ |b1.x - a1.x|
      · exact d1 ⟨⟨hx, hxd.1⟩, hxd.2⟩
      · by_cases hyz : |b1.z - a1.z| ≤ |b1.y - a1.y|
        · have : 1e-6 < |b1.y - a1.y| := by
            by_contra hh; push Not at hh
            apply hxd; constructor <;> linarith
          exact d2 ⟨this, hyz⟩
        · push Not at hyz
          have : 1e-6 < |b1.z - a1.z| := by
            by_contra hh; push Not at hh
            apply hxd; constructor <;> linarith
          exact d3 this
    · by_cases hyz : |b1.z - a1.z| ≤ |b1.y - a1.y|
      · exact d2 ⟨hy, hyz⟩
      · push Not at hyz; exact d3 (lt_trans hy hyz)
    · exact d3 hz


end
end G3d.C05
