import G3d.DriverPrim
/-! Branch statistics for the ray–primitive layer (diagnostic apparatus, not part of the comparison):
    `g3d-driver primstats < cases.txt` labels every intersection line with the branch the MODEL takes
    (the model being bit-exact with the crate on these very lines, the labels hold for the crate too)
    and prints the counts. -/
namespace G3d
open Num
section
variable {α : Type} [Num α] [FloatIO α]

/-- the local ray (with its error vectors) an entry point works on -/
def rdEntryRay (entry : String) (tr : Option (Transform α)) : RdM (Ray α × V3 α × V3 α) := do
  let ray ← rdRay (α := α)
  match entry with
  | "int" => return localRayIntersect tr ray
  | "sint" => return localRaySimple tr ray
  | _ => do
    let oe ← rdV; let de ← rdV
    return (ray, oe, de)

def triBranch (ray : Ray α) (t : TriV α) : String :=
  let edge1 := t.b - t.a
  let edge2 := t.c - t.a
  let h := ray.direction.cross edge2
  let a := edge1.dot h
  let tiny : α := tiny100
  if a >. -tiny && a <. tiny then "det<TINY" else
  let f : α := 1 / a
  let s := ray.origin - t.a
  let u := f * (s.dot h)
  if !((0 : α) <=. u && u <=. (1 : α)) then "u-out" else
  let q := s.cross edge1
  let v := f * (ray.direction.dot q)
  if !((0 : α) <=. v && v <=. (1 : α)) then "v-out" else
  if (u + v) >. (1 : α) then "u+v>1" else
  let tt := f * (edge2.dot q)
  if tt >. tiny then "hit" else "t<=TINY"

def diskBranch (ray : Ray α) (s : Disk α) : String :=
  let pl := Plane.new s.centre s.normal
  let den := pl.normal.dot ray.direction
  if Num.abs den <. (Num.eps : α) then "den<EPS" else
  match pl.intersect ray with
  | none => "t<0"
  | some t =>
    let phit := ray.project t
    let rSquared := (phit - s.centre).lengthSquared
    if rSquared >. s.radius * s.radius then "r>radius" else
    if rSquared <. s.innerRadius * s.innerRadius then "r<inner" else
    let zxn := s.phiZero.cross s.normal
    let r := phit - s.centre
    let phi0 := Num.atan2 ((-r).dot zxn) (r.dot s.phiZero)
    let w := if phi0 <. (0 : α) then "+wrap" else ""
    match s.basicIntersection ray ⟨0,0,0⟩ ⟨0,0,0⟩ with
    | none => "phi>phi_max" ++ w
    | some _ => "hit" ++ w

/-- shared by sphere and cylinder -/
def quadricBranch (sol : Option (Approx α × Approx α)) (calcF : Approx α → V3 α × α)
    (reason : V3 α → α → String) (flag : Approx α → String) : String :=
  match sol with
  | none => "no-root"
  | some (t0, t1) =>
    if t1.low <=. (0 : α) then "t1.low<=0" else
    if t0.low >. (0 : α) then
      let r := calcF t0
      let why := reason r.1 r.2
      if why == "" then "t0:hit" ++ flag t0 else
      let r2 := calcF t1
      let why2 := reason r2.1 r2.2
      if why2 == "" then s!"t0:clipped({why})->t1:hit" ++ flag t1 else s!"t0:clipped({why})->t1:clipped({why2})"
    else
      let r := calcF t1
      let why := reason r.1 r.2
      if why == "" then "t1-first:hit" ++ flag t1 else s!"t1-first:clipped({why})"

def sphereBranch (l : Ray α × V3 α × V3 α) (s : Sphere α) : String :=
  let q := s.quadCoeffs l.1 l.2.1 l.2.2
  let reason := fun (phit : V3 α) (phi : α) =>
    if s.zmin >. -s.radius && phit.z <. s.zmin then "zmin"
    else if s.zmax <. s.radius && phit.z >. s.zmax then "zmax"
    else if phi >. s.phiMax then "phi" else if s.clipped phit phi then "?" else ""
  let flag := fun (thit : Approx α) =>
    let p := l.1.project thit.midpoint
    let k := s.radius / p.length
    let limit := (1e-5 : α) * s.radius
    let pole := if Num.abs (p.x * k) <. limit && Num.abs (p.y * k) <. limit then "+pole-guard" else ""
    let r := s.calcPhitAndPhi l.1 thit
    let wrap := if Num.atan2 r.1.y r.1.x <. (0 : α) then "+wrap" else ""
    pole ++ wrap
  quadricBranch (Approx.solveQuadratic q.1 q.2.1 q.2.2) (s.calcPhitAndPhi l.1) reason flag

def cylBranch (l : Ray α × V3 α × V3 α) (s : Cylinder α) : String :=
  let q := s.quadCoeffs l.1 l.2.1 l.2.2
  let reason := fun (phit : V3 α) (phi : α) =>
    if phit.z <. s.zmin then "zmin" else if phit.z >. s.zmax then "zmax"
    else if phi >. s.phiMax then "phi" else if s.clipped phit phi then "?" else ""
  let flag := fun (thit : Approx α) =>
    let r := s.calcPhitAndPhi l.1 thit
    if Num.atan2 r.1.y r.1.x <. (0 : α) then "+wrap" else ""
  quadricBranch (Approx.solveQuadratic q.1 q.2.1 q.2.2) (s.calcPhitAndPhi l.1) reason flag

/-- label of a line, `none` for ops without branch label -/
def primBranch (op : String) : Option (RdM String) :=
  match op.splitOn "." with
  | [kind, entry] =>
    if !(["int", "sint", "local", "slocal", "basic"].contains entry) then none else
    match kind with
    | "tri" => some do
        let t ← rdTri (α := α)
        let l ← rdEntryRay entry (none : Option (Transform α))
        return s!"tri {triBranch l.1 t}"
    | "dk" => some do
        let d ← rdDisk (α := α)
        match d with
        | .ok d => do
          let l ← rdEntryRay entry d.transform
          return s!"dk {diskBranch l.1 d}"
        | _ => return "dk ctor-panic"
    | "sp" => some do
        let s ← rdSphere (α := α)
        match s with
        | .ok s => do
          let l ← rdEntryRay entry s.transform
          return s!"sp {sphereBranch l s}"
        | _ => return "sp ctor-panic"
    | "cy" => some do
        let s ← rdCyl (α := α)
        match s with
        | .ok s => do
          let l ← rdEntryRay entry s.transform
          return s!"cy {cylBranch l s}"
        | _ => return "cy ctor-panic"
    | "ds" => some do
        let s ← rdSrc (α := α)
        let l ← rdEntryRay entry s.transform
        match s.simpleIntersectLocalRay l.1 l.2.1 l.2.2 with
        | none => return "ds outside-cone"
        | some _ =>
          if entry == "int" || entry == "local" then
            match s.getProxyDisk (10 : α) with
            | .ok _ => return "ds in-cone:info"
            | _ => return "ds in-cone:proxy-disk-panic"
          else return "ds in-cone"
    | _ => none
  | _ => none

def branchOfLine (line : String) : Option String :=
  match line.splitOn " => " with
  | [lhs, _] =>
    let toks := (lhs.splitOn " ").toArray
    match primBranch (α := α) (toks.getD 0 "") with
    | some m => some (m.run { toks := toks, pos := 1 }).1
    | none => none
  | _ => none

end

partial def statsLoop (h : IO.FS.Stream) (f32 : Bool) (acc : List (String × Nat)) : IO (List (String × Nat)) := do
  let line ← h.getLine
  if line.isEmpty then return acc
  let line := line.trimAscii.toString
  if line.isEmpty || line.startsWith "#" then statsLoop h f32 acc
  else
    let r := if f32 then branchOfLine (α := Float32) line else branchOfLine (α := Float) line
    match r with
    | none => statsLoop h f32 acc
    | some k =>
      let acc := if acc.any (·.1 == k) then acc.map (fun p => if p.1 == k then (p.1, p.2 + 1) else p) else (k, 1) :: acc
      statsLoop h f32 acc

def primStatsMain (args : List String) : IO UInt32 := do
  let acc ← statsLoop (← IO.getStdin) (args.contains "f32") []
  let sorted := acc.toArray.qsort (fun a b => a.1 < b.1)
  for (k, n) in sorted do
    IO.println s!"{n}\t{k}"
  return 0

end G3d
