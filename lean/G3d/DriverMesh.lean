import G3d.DriverCore
import G3d.DriverGeom
import G3d.Model.Mesh
/-! ops of the triangulation layer (triangulation3d.rs): C01 C08 C09 C18

Line formats (floats = hex bit patterns, `-` = `None`):
* STATE  = `<slots> <n_valid> ; SLOT ; SLOT …`,
  SLOT   = `a(3) b(3) c(3) n0 n1 n2 c0c1c2 valid aspect_ratio circumcenter(3) centroid(3) area index`
* DIGEST = `#<fnv1a-64 of STATE> <slots> <n_valid>`
* POLY   = `<n> outer pts… <h> (<n> hole pts…)…`  (built through push/close/new/cut_hole on both sides)
* `mesh.from_polygon POLY                       => build-err | err | panic | ok STATE`
* `mesh.mesh_polygon POLY max_area max_ar       => build-err | err | panic | fuel | ok STATE`
* `mesh.outcome k POLY [max_area max_ar]        => build-err | err | panic | fuel | ok <slots> <n_valid>`   (k=0 from_polygon, k=1 mesh_polygon)
* `mesh.tris POLY max_area max_ar               => … | ok <valid> ; a b c aspect_ratio area ; …`             (valid triangles only)
* `mesh.hist d POLY k STEP…                     => INIT | RES | RES …`   d=0: full STATE after every step, d=1: DIGEST after
  every step and ` | final STATE` at the end.  INIT = outcome of `from_polygon` (+ state).
  STEP = `SE i e p(3)` | `ST i p(3)` | `FD i e` | `RD max_ar` | `AP p(3)` | `RF max_area max_ar` | `FA i e`
  RES  = `ok S` | `err S` | `panic` (history stops) ; `AP`: `ok 0/1 S` ; `FA`: `ok none` | `ok some x` | `err` | `panic` ; `RF` may give `fuel`
* `mesh.is_convex a(3) b(3) c(3) d(3)           => 0/1` -/
namespace G3d
open Num
section
variable {α : Type} [Num α] [FloatIO α]

def shSlot (t : TriPiece α) : String :=
  s!"{shV t.triangle.a} {shV t.triangle.b} {shV t.triangle.c} {shOptN t.n0} {shOptN t.n1} {shOptN t.n2} {shB t.c0}{shB t.c1}{shB t.c2} {shB t.valid} {shF t.aspectRatio} {shV t.circumcenter} {shV t.centroid} {shF t.triangle.area} {t.index}"

def shMesh (m : Mesh α) : String :=
  m.triangles.foldl (fun s t => s ++ " ; " ++ shSlot t) s!"{m.triangles.size} {m.nValid}"

def fnv64 (s : String) : UInt64 :=
  s.toUTF8.foldl (fun h b => (h ^^^ b.toUInt64) * 0x100000001b3) 0xcbf29ce484222325

def shDigest (m : Mesh α) : String :=
  s!"#{natToHex (fnv64 (shMesh m)).toNat 16} {m.triangles.size} {m.nValid}"

def shState (digest : Bool) (m : Mesh α) : String := if digest then shDigest m else shMesh m

def rdPoly : RdM (Option (Polygon α)) := do
  let outer ← rdPtsL (α := α)
  let holes ← rdHoles
  return buildPolygon outer holes

def shMeshRes (r : Res (Mesh α)) (f : Mesh α → String) : String :=
  match r with
  | .ok m => s!"ok {f m}"
  | .err k => if k == Mesh.refineOutOfFuel then "fuel" else "err"
  | .panic _ => "panic"

def shTris (m : Mesh α) : String :=
  let valid := m.triangles.foldl (fun k t => if t.valid then k + 1 else k) 0
  m.triangles.foldl (fun s t =>
    if t.valid then
      s ++ s!" ; {shV t.triangle.a} {shV t.triangle.b} {shV t.triangle.c} {shF t.aspectRatio} {shF t.triangle.area}"
    else s) (toString valid)

inductive MStep (α : Type) where
  | se (i e : Nat) (p : V3 α)
  | st (i : Nat) (p : V3 α)
  | fd (i e : Nat)
  | rd (maxAr : α)
  | ap (p : V3 α)
  | rf (maxArea maxAr : α)
  | fa (i e : Nat)
  | bad

def rdStep : RdM (MStep α) := do
  let t ← rdTok
  match t with
  | "SE" => do let i ← rdN; let e ← rdN; let p ← rdV (α := α); return .se i e p
  | "ST" => do let i ← rdN; let p ← rdV (α := α); return .st i p
  | "FD" => do let i ← rdN; let e ← rdN; return .fd i e
  | "RD" => do let x ← rdF (α := α); return .rd x
  | "AP" => do let p ← rdV (α := α); return .ap p
  | "RF" => do let a ← rdF (α := α); let x ← rdF; return .rf a x
  | "FA" => do let i ← rdN; let e ← rdN; return .fa i e
  | _ => return .bad

/-- the hooks `verif_split_edge(i, edge, p)` … call `Edge::from_i(edge)` (may panic) before the method -/
def withEdge {β : Type} (e : Nat) (f : Edge → MeshM α β) : MeshM α β := fun m =>
  match Edge.fromI e with
  | .ok edge => f edge m
  | .err k => (m, .err k)
  | .panic p => (m, .panic p)

def shUnitRes (digest : Bool) (x : Mesh α × Res Unit) : String × Option (Mesh α) :=
  match x with
  | (m, .ok ()) => (s!"ok {shState digest m}", some m)
  | (m, .err k) => if k == Mesh.refineOutOfFuel then ("fuel", none) else (s!"err {shState digest m}", some m)
  | (_, .panic _) => ("panic", none)

/-- one step: the printed result and the state to continue with (`none` = stop) -/
def runStep (digest : Bool) (m : Mesh α) (s : MStep α) : String × Option (Mesh α) :=
  match s with
  | .se i e p => shUnitRes digest (withEdge e (fun edge => Mesh.splitEdge i edge p) m)
  | .st i p => shUnitRes digest (Mesh.splitTriangle i p m)
  | .fd i e => shUnitRes digest (withEdge e (fun edge => Mesh.flipDiagonal i edge) m)
  | .rd x => shUnitRes digest (Mesh.restoreDelaunay x m)
  | .rf a x => shUnitRes digest (Mesh.refine a x Mesh.refineFuel m)
  | .ap p =>
    match Mesh.addPoint p m with
    | (m', .ok b) => (s!"ok {shB b} {shState digest m'}", some m')
    | (m', .err _) => (s!"err {shState digest m'}", some m')
    | (_, .panic _) => ("panic", none)
  | .fa i e =>
    let r : Res (Option α) := do
      let edge ← Edge.fromI e
      m.getFlippedAspectRatio i edge
    match r with
    | .ok none => ("ok none", some m)
    | .ok (some x) => (s!"ok some {shF x}", some m)
    | .err _ => ("err", some m)
    | .panic _ => ("panic", none)
  | .bad => ("bad-step", none)

def runMeshHist : RdM String := do
  let digest := (← rdN) != 0
  let pg ← rdPoly (α := α)
  let k ← rdN
  let mut steps : Array (MStep α) := #[]
  for _ in [0:k] do
    steps := steps.push (← rdStep (α := α))
  match pg with
  | none => return "build-err"
  | some pg =>
    match Mesh.fromPolygon pg with
    | .err _ => return "err"
    | .panic _ => return "panic"
    | .ok m0 =>
      let mut out : Array String := #[s!"ok {shState digest m0}"]
      let mut cur : Option (Mesh α) := some m0
      let mut last : Mesh α := m0
      for s in steps do
        match cur with
        | none => pure ()
        | some m =>
          let (str, nxt) := runStep digest m s
          out := out.push str
          cur := nxt
          match nxt with
          | some m' => last := m'
          | none => pure ()
      if digest && cur.isSome then out := out.push s!"final {shMesh last}"
      return " | ".intercalate out.toList

def runOpMesh (op : String) : Option (RdM String) :=
  match op with
  | "mesh.from_polygon" => some do
      match ← rdPoly (α := α) with
      | none => return "build-err"
      | some pg => return shMeshRes (Mesh.fromPolygon pg) shMesh
  | "mesh.mesh_polygon" => some do
      let pg ← rdPoly (α := α)
      let maxArea ← rdF (α := α); let maxAr ← rdF
      match pg with
      | none => return "build-err"
      | some pg => return shMeshRes (Mesh.meshPolygon pg maxArea maxAr Mesh.refineFuel) shMesh
  | "mesh.outcome" => some do
      let k ← rdN
      let pg ← rdPoly (α := α)
      let f := fun (m : Mesh α) => s!"{m.triangles.size} {m.nValid}"
      if k == 0 then
        match pg with
        | none => return "build-err"
        | some pg => return shMeshRes (Mesh.fromPolygon pg) f
      else
        let maxArea ← rdF (α := α); let maxAr ← rdF
        match pg with
        | none => return "build-err"
        | some pg => return shMeshRes (Mesh.meshPolygon pg maxArea maxAr Mesh.refineFuel) f
  | "mesh.tris" => some do
      let pg ← rdPoly (α := α)
      let maxArea ← rdF (α := α); let maxAr ← rdF
      match pg with
      | none => return "build-err"
      | some pg => return shMeshRes (Mesh.meshPolygon pg maxArea maxAr Mesh.refineFuel) shTris
  | "mesh.hist" => some (runMeshHist (α := α))
  | "mesh.is_convex" => some do
      let a ← rdV (α := α); let b ← rdV; let c ← rdV; let d ← rdV
      return shB (isConvex a b c d)
  | _ => none

end
end G3d
