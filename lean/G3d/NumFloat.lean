import G3d.Num
/-! Hardware instances: test apparatus for the correspondence check (outside every theorem). -/

namespace G3d

def f64NextUp (v : Float) : Float :=
  if v.isInf && v > 0 then v else
  let ui := v.toBits
  let ui := if ui == 0x8000000000000000 then 0 else ui
  if v >= 0 then Float.ofBits (ui + 1) else Float.ofBits (ui - 1)

def f64NextDown (v : Float) : Float :=
  if v.isInf && v < 0 then v else
  let ui := v.toBits
  let ui := if ui == 0 then 0x8000000000000000 else ui
  if v > 0 then Float.ofBits (ui - 1) else Float.ofBits (ui + 1)

def f64Pi : Float := Float.ofBits 0x400921FB54442D18

instance : Num Float where
  ofNat n := Float.ofNat n
  ofSci m s e := Float.ofScientific m s e
  eps := Float.ofBits 0x3CB0000000000000
  maxv := Float.ofBits 0x7FEFFFFFFFFFFFFF
  pi := f64Pi
  lt a b := decide (a < b)
  le a b := decide (a ≤ b)
  beq a b := a == b
  abs := Float.abs
  sqrt := Float.sqrt
  sin := Float.sin
  cos := Float.cos
  tan := Float.tan
  acos := Float.acos
  atan2 := Float.atan2
  toRadians x := x * (f64Pi / 180.0)
  toDegrees x := x * (180.0 / f64Pi)
  nextUp := f64NextUp
  nextDown := f64NextDown
  ofUsize n := Float.ofNat n
  inf := Float.ofBits 0x7FF0000000000000

def f32NextUp (v : Float32) : Float32 :=
  if v.isInf && v > 0 then v else
  let ui := v.toBits
  let ui := if ui == 0x80000000 then 0 else ui
  if v >= 0 then Float32.ofBits (ui + 1) else Float32.ofBits (ui - 1)

def f32NextDown (v : Float32) : Float32 :=
  if v.isInf && v < 0 then v else
  let ui := v.toBits
  let ui := if ui == 0 then 0x80000000 else ui
  if v > 0 then Float32.ofBits (ui - 1) else Float32.ofBits (ui + 1)

def f32Pi : Float32 := Float32.ofBits 0x40490FDB

instance : Num Float32 where
  ofNat n := Float32.ofNat n
  ofSci m s e := Float32.ofScientific m s e
  eps := Float32.ofBits 0x34000000
  maxv := Float32.ofBits 0x7F7FFFFF
  pi := f32Pi
  lt a b := decide (a < b)
  le a b := decide (a ≤ b)
  beq a b := a == b
  abs := Float32.abs
  sqrt := Float32.sqrt
  sin := Float32.sin
  cos := Float32.cos
  tan := Float32.tan
  acos := Float32.acos
  atan2 := Float32.atan2
  toRadians x := x * (f32Pi / 180.0)
  toDegrees x := x * Float32.ofBits 0x42652EE1
  nextUp := f32NextUp
  nextDown := f32NextDown
  ofUsize n := Float32.ofNat n
  inf := Float32.ofBits 0x7F800000

end G3d
