/-
`Num α`: the scalar interface every model function is written against.

The model of geometry3d is written ONCE, polymorphically in `α`.  Instances:
* `Float`, `Float32` (G3d/NumFloat.lean)  – hardware IEEE arithmetic, used by the driver that is
  compared bit-for-bit with the Rust crate;
* `ℝ` (G3d/Proofs/NumReal.lean)            – exact semantics, used by the theorems;
* abstract rounded arithmetics (G3d/Proofs/Rounded.lean) – used by the interval theorems.

Nothing in this file (or in G3d/Model) imports anything outside Lean core.
-/

class Num (α : Type) extends Add α, Sub α, Mul α, Div α, Neg α where
  /-- numeric literal `n` -/
  ofNat : Nat → α
  /-- decimal literal `m·10^(±e)` as the Rust compiler reads it (nearest representable) -/
  ofSci : Nat → Bool → Nat → α
  /-- `Float::EPSILON` -/
  eps : α
  /-- `Float::MAX` -/
  maxv : α
  /-- `PI` -/
  pi : α
  /-- IEEE `<` (false on NaN) -/
  lt : α → α → Bool
  /-- IEEE `<=` (false on NaN) -/
  le : α → α → Bool
  /-- IEEE `==` -/
  beq : α → α → Bool
  abs : α → α
  sqrt : α → α
  sin : α → α
  cos : α → α
  tan : α → α
  acos : α → α
  atan2 : α → α → α
  /-- `x.to_radians()` -/
  toRadians : α → α
  /-- `x.to_degrees()` -/
  toDegrees : α → α
  /-- the crate's `next_float_up` -/
  nextUp : α → α
  /-- the crate's `next_float_down` -/
  nextDown : α → α
  /-- `usize as Float` -/
  ofUsize : Nat → α
  /-- `Float::INFINITY` -/
  inf : α

-- The operator instances of a `Num` must never shadow a type's own arithmetic (ℝ in the proofs).
attribute [instance 10] Num.toAdd Num.toSub Num.toMul Num.toDiv Num.toNeg

namespace Num
variable {α : Type} [Num α]

instance (priority := 10) instOfNat (n : Nat) : OfNat α n := ⟨Num.ofNat n⟩
instance (priority := 10) instOfScientific : OfScientific α := ⟨Num.ofSci⟩

@[inline] def gt (a b : α) : Bool := Num.lt b a
@[inline] def ge (a b : α) : Bool := Num.le b a

/-- Rust `x.is_nan()` (`x != x`) -/
@[inline] def isNaN (x : α) : Bool := !(Num.beq x x)

/-- Rust `f64::clamp` -/
@[inline] def clamp (x lo hi : α) : α :=
  let x := if Num.lt x lo then lo else x
  if Num.gt x hi then hi else x

/-- the crate's `gamma!(n)` -/
@[inline] def gamma (n : α) : α :=
  let half : α := Num.eps / 2
  let nm := half * n
  nm / (1 - nm)

/-- `100. * Float::EPSILON` -/
@[inline] def tiny100 : α := (100 : α) * Num.eps

end Num

namespace G3d
scoped infix:50 " <. " => Num.lt
scoped infix:50 " <=. " => Num.le
scoped infix:50 " >. " => Num.gt
scoped infix:50 " >=. " => Num.ge
end G3d
