import G3d.DriverCore
/-! ops of the scalar / algebra layer (round_error.rs, transform.rs, bbox3d.rs) -/
namespace G3d
open Num
section
variable {α : Type} [Num α] [FloatIO α]

/-- `consts` line: every constant the model hard-codes, as computed by the model -/
def constsLine : String :=
  " ".intercalate [shF (Num.eps : α), shF (tiny100 : α), shF (Num.maxv : α), shF (Num.pi : α),
    shF (gamma (3 : α)), shF ((1 : α) + 2 * gamma (3 : α)), shF ((1e-5 : α)), shF ((1e-7 : α)),
    shF ((1e-6 : α)), shF ((1e-8 : α)), shF ((1e-3 : α)), shF (toRadians (1 : α)), shF (toDegrees (1 : α)),
    shF ((0.5 : α)), shF ((9E14 : α)), shF ((1E19 : α)), shF ((1 : α) - (1e-8 : α))]

def runOpAlgebra (op : String) : Option (RdM String) :=
  match op with
  | "consts" => some (return constsLine (α := α))
  -- ApproxFloat ------------------------------------------------------------
  | "nu" => some do let x ← rdF (α := α); return shF (nextUp x)
  | "nd" => some do let x ← rdF (α := α); return shF (nextDown x)
  | "ap.neg" => some do let a ← rdA (α := α); return shA a.neg
  | "ap.sqrt" => some do let a ← rdA (α := α); return shA a.sqrt
  | "ap.add" => some do let a ← rdA (α := α); let b ← rdA; return shA (a.add b)
  | "ap.sub" => some do let a ← rdA (α := α); let b ← rdA; return shA (a.sub b)
  | "ap.mul" => some do let a ← rdA (α := α); let b ← rdA; return shA (a.mul b)
  | "ap.div" => some do let a ← rdA (α := α); let b ← rdA; return shA (a.div b)
  | "ap.addF" => some do let a ← rdA (α := α); let b ← rdF; return shA (a.addF b)
  | "ap.subF" => some do let a ← rdA (α := α); let b ← rdF; return shA (a.subF b)
  | "ap.mulF" => some do let a ← rdA (α := α); let b ← rdF; return shA (a.mulF b)
  | "ap.divF" => some do let a ← rdA (α := α); let b ← rdF; return shA (a.divF b)
  | "ap.addA" => some do let a ← rdA (α := α); let b ← rdA; return shA (a.addAssign b)
  | "ap.subA" => some do let a ← rdA (α := α); let b ← rdA; return shA (a.subAssign b)
  | "ap.mulA" => some do let a ← rdA (α := α); let b ← rdA; return shA (a.mulAssign b)
  | "ap.divA" => some do let a ← rdA (α := α); let b ← rdA; return shA (a.divAssign b)
  | "ap.addAF" => some do let a ← rdA (α := α); let b ← rdF; return shA (a.addAssignF b)
  | "ap.subAF" => some do let a ← rdA (α := α); let b ← rdF; return shA (a.subAssignF b)
  | "ap.mulAF" => some do let a ← rdA (α := α); let b ← rdF; return shA (a.mulAssignF b)
  | "ap.divAF" => some do let a ← rdA (α := α); let b ← rdF; return shA (a.divAssignF b)
  | "ap.fve" => some do let v ← rdF (α := α); let e ← rdF; return shA (Approx.fromValueAndError v e)
  | "ap.mid" => some do let a ← rdA (α := α); return s!"{shF a.midpoint} {shF a.absoluteError}"
  | "ap.maxmin" => some do
      let a ← rdF (α := α); let b ← rdF; let c ← rdF; let d ← rdF
      let r := maxMin4 a b c d
      return s!"{shF r.1} {shF r.2}"
  | "ap.solve" => some do
      let a ← rdA (α := α); let b ← rdA; let c ← rdA
      match Approx.solveQuadratic a b c with
      | none => return "none"
      | some (x1, x2) => return s!"some {shA x1} {shA x2}"
  -- Transform -----------------------------------------------------------------
  | "tr.chain" => some do let t ← rdChain (α := α); return shT t
  | "tr.hands" => some do let t ← rdChain (α := α); return shB t.changesHands
  | "tr.pt" => some do let t ← rdChain (α := α); let p ← rdV; return s!"{shV (t.transformPt p)} {shV (t.invTransformPt p)}"
  | "tr.vec" => some do let t ← rdChain (α := α); let p ← rdV; return s!"{shV (t.transformVec p)} {shV (t.invTransformVec p)}"
  | "tr.nrm" => some do let t ← rdChain (α := α); let p ← rdV; return s!"{shV (t.transformNormal p)} {shV (t.invTransformNormal p)}"
  | "tr.box" => some do let t ← rdChain (α := α); let b ← rdBox; return s!"{shBox (t.transformBBox b)} {shBox (t.invTransformBBox b)}"
  | "tr.pterr" => some do
      let t ← rdChain (α := α); let p ← rdV
      let a := Transform.ptWithError t.m p; let b := Transform.ptWithError t.inv p
      return s!"{shV a.1} {shV a.2} {shV b.1} {shV b.2} {shT t}"
  | "tr.vecerr" => some do
      let t ← rdChain (α := α); let p ← rdV
      let a := Transform.vecWithError t.m p; let b := Transform.vecWithError t.inv p
      return s!"{shV a.1} {shV a.2} {shV b.1} {shV b.2} {shT t}"
  | "tr.ptprop" => some do
      let t ← rdChain (α := α); let p ← rdV; let e ← rdV
      let a := Transform.ptPropagateError t.m p e; let b := Transform.ptPropagateError t.inv p e
      return s!"{shV a.1} {shV a.2} {shV b.1} {shV b.2} {shT t}"
  | "tr.vecprop" => some do
      let t ← rdChain (α := α); let p ← rdV; let e ← rdV
      let a := Transform.vecPropagateError t.m p e; let b := Transform.vecPropagateError t.inv p e
      return s!"{shV a.1} {shV a.2} {shV b.1} {shV b.2} {shT t}"
  | "tr.ray" => some do
      let t ← rdChain (α := α); let r ← rdRay
      let a := Transform.rayWith t.m r; let b := Transform.rayWith t.inv r
      return s!"{shRay a.1} {shV a.2.1} {shV a.2.2} {shRay b.1} {shV b.2.1} {shV b.2.2}"
  | "tr.rayprop" => some do
      let t ← rdChain (α := α); let r ← rdRay; let oe ← rdV; let de ← rdV
      let a := Transform.rayPropagate t.m r oe de; let b := Transform.rayPropagate t.inv r oe de
      return s!"{shRay a.1} {shV a.2.1} {shV a.2.2} {shRay b.1} {shV b.2.1} {shV b.2.2} {shT t}"
  | "tr.rayerr" => some do
      let t ← rdChain (α := α); let r ← rdRay
      let a := Transform.rayWith t.m r; let b := Transform.rayWith t.inv r
      return s!"{shRay a.1} {shV a.2.1} {shV a.2.2} {shRay b.1} {shV b.2.1} {shV b.2.2} {shT t}"
  -- BBox ------------------------------------------------------------------------
  | "bb.new" => some do let a ← rdV (α := α); let b ← rdV; return shBox (BBox.new a b)
  | "bb.unionpt" => some do let b ← rdBox (α := α); let p ← rdV; return shBox (b.fromUnionPoint p)
  | "bb.union" => some do let a ← rdBox (α := α); let b ← rdBox; return shBox (a.fromUnion b)
  | "bb.inter" => some do let a ← rdBox (α := α); let b ← rdBox; return shBox (a.fromIntersection b)
  | "bb.overlaps" => some do let a ← rdBox (α := α); let b ← rdBox; return shB (a.overlaps b)
  | "bb.inside" => some do let a ← rdBox (α := α); let p ← rdV; return s!"{shB (a.pointInside p)} {shB (a.pointInsideExclusive p)}"
  | "bb.misc" => some do let a ← rdBox (α := α); return s!"{a.maxExtent} {shF a.surfaceArea}"
  | "bb.hit" => some do let a ← rdBox (α := α); let r ← rdRay; let inv ← rdV; return shB (a.intersect r inv)
  | "bb.newhit" => some do
      let a ← rdV (α := α); let b ← rdV; let r ← rdRay; let inv ← rdV
      return shB ((BBox.new a b).intersect r inv)
  | _ => none


end
end G3d
