import G3d.NumFloat
import G3d.Model.Outcome
import G3d.Model.Vec
import G3d.Model.Approx
import G3d.Model.BBox
import G3d.Model.Transform
/-!
Line-protocol driver (test apparatus; imports only core + the model).

A case line is   `<op> <arg> <arg> … => <result tokens…>`   where the part after `=>` is what the Rust
implementation returned.  The driver recomputes the result with the model (hardware floats), and
prints nothing when the two strings are equal, else `DIS <line> || <model result>`.
Floats are hex bit patterns (16 digits for f64, 8 for f32); NaN is canonicalised to `nan`.
-/
namespace G3d
open Num

class FloatIO (α : Type) where
  ofHex : String → α
  toHex : α → String

def hexDigit (c : Char) : Nat :=
  if '0' ≤ c ∧ c ≤ '9' then c.toNat - '0'.toNat
  else if 'a' ≤ c ∧ c ≤ 'f' then c.toNat - 'a'.toNat + 10
  else if 'A' ≤ c ∧ c ≤ 'F' then c.toNat - 'A'.toNat + 10 else 0

def parseHex (s : String) : Nat := s.foldl (fun acc c => acc * 16 + hexDigit c) 0

def natToHex (n : Nat) (digits : Nat) : String :=
  let rec go (k : Nat) (n : Nat) (acc : List Char) : List Char :=
    match k with
    | 0 => acc
    | k+1 => go k (n / 16) ((Nat.digitChar (n % 16)) :: acc)
  String.ofList (go digits n [])

instance : FloatIO Float where
  ofHex s := if s == "nan" then Float.ofBits 0x7FF8000000000000 else Float.ofBits (parseHex s).toUInt64
  toHex x := if x.isNaN then "nan" else natToHex x.toBits.toNat 16

instance : FloatIO Float32 where
  ofHex s := if s == "nan" then Float32.ofBits 0x7FC00000 else Float32.ofBits (parseHex s).toUInt32
  toHex x := if x.isNaN then "nan" else natToHex x.toBits.toNat 8

/-- token reader -/
structure Rd where
  toks : Array String
  pos : Nat

abbrev RdM := StateM Rd

def rdTok : RdM String := do
  let s ← get
  set { s with pos := s.pos + 1 }
  return s.toks.getD s.pos ""

section
variable {α : Type} [Num α] [FloatIO α]

def rdF : RdM α := do return FloatIO.ofHex (← rdTok)
def rdN : RdM Nat := do return (← rdTok).toNat!
def rdV : RdM (V3 α) := do
  let x ← rdF; let y ← rdF; let z ← rdF
  return ⟨x, y, z⟩
def rdA : RdM (Approx α) := do
  let l ← rdF; let h ← rdF
  return ⟨l, h⟩
def rdRay : RdM (Ray α) := do
  let o ← rdV; let d ← rdV
  return ⟨o, d⟩
def rdBox : RdM (BBox α) := do
  let a ← rdV; let b ← rdV
  return ⟨a, b⟩

def shF (x : α) : String := FloatIO.toHex x
def shB (b : Bool) : String := if b then "1" else "0"
def shV (v : V3 α) : String := s!"{shF v.x} {shF v.y} {shF v.z}"
def shA (a : Approx α) : String := s!"{shF a.low} {shF a.high}"
def shBox (b : BBox α) : String := s!"{shV b.min} {shV b.max}"
def shRay (r : Ray α) : String := s!"{shV r.origin} {shV r.direction}"
def shM4 (m : M4 α) : String :=
  " ".intercalate ([m.a00, m.a01, m.a02, m.a03, m.a10, m.a11, m.a12, m.a13,
                    m.a20, m.a21, m.a22, m.a23, m.a30, m.a31, m.a32, m.a33].map shF)
def shT (t : Transform α) : String := s!"{shM4 t.m} {shM4 t.inv}"

/-- an elementary transform: `I`, `T x y z`, `S x y z`, `RX d`, `RY d`, `RZ d` -/
def rdElem : RdM (Transform α) := do
  let k ← rdTok
  match k with
  | "T" => do let x ← rdF; let y ← rdF; let z ← rdF; return Transform.translate x y z
  | "S" => do let x ← rdF; let y ← rdF; let z ← rdF; return Transform.scale x y z
  | "RX" => do let d ← rdF; return Transform.rotateX d
  | "RY" => do let d ← rdF; return Transform.rotateY d
  | "RZ" => do let d ← rdF; return Transform.rotateZ d
  | _ => return Transform.new

/-- a chain: `n e1 … en`, composed as `t = new(); t *= e1; …; t *= en` -/
def rdChain : RdM (Transform α) := do
  let n ← rdN
  let mut t : Transform α := Transform.new
  for _ in [0:n] do
    let e ← rdElem (α := α)
    t := t.mulAssign e
  return t


def rdPts : RdM (Array (V3 α)) := do
  let n ← rdN
  let mut a : Array (V3 α) := #[]
  for _ in [0:n] do
    a := a.push (← rdV)
  return a
def shPts (a : Array (V3 α)) : String :=
  a.foldl (fun s p => s ++ " " ++ shV p) (toString a.size)
def shOptN (o : Option Nat) : String := match o with | none => "-" | some n => toString n

end
end G3d
