#!/bin/bash
# usage: tools_seeded_rerun.sh <prop...> ; re-runs ./check against every seeded change of the given properties (one /repo patch at a time; never while another check runs)
cd /verif
for p in "$@"; do for d in seeded/$p-*/; do s=$(basename $d); b=$(python3 -c "import json;print(json.load(open('/verif/seeded/$s/meta.json')).get('breaks','$p'))"); cs="$p"; [ "$b" != "$p" ] && cs="$p $b"
python3 tools_seeded.py run $s $cs | python3 -c "
import json,sys
d=json.load(sys.stdin)
for k,v in d.items(): print('$s', k, 'detected' if isinstance(v,dict) and v.get('detected') else 'MISSED', [l[:160] for l in (v.get('lines',[]) if isinstance(v,dict) else [v])][:2])
"; done; done
echo ALLDONE
