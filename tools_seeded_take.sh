#!/bin/bash
# usage: tools_seeded_take.sh <prop> <letter> ; takes /tmp/mut/<prop>/OUT/{patch.diff,demo.rs,meta.json} of a finished sub-agent, confirms it in the
# scratch worktree, stores it as seeded/<prop>-<letter> and runs the property's check against it (one /repo patch at a time)
p=$1; x=$2; o=/tmp/mut/$p/OUT
mkdir -p $o/$x && mv $o/patch.diff $o/demo.rs $o/meta.json $o/$x/ 2>/dev/null
python3 - <<PY
import json
q='$o/$x/meta.json'; m=json.load(open(q)); m['summary']=m.get('what',''); m['manifests_when']=m.get('needs',''); json.dump(m,open(q,'w'))
PY
cd /verif && python3 tools_seeded.py confirm $p $x 2>&1 | tail -7
[ -d /verif/seeded/$p-$x ] && python3 tools_seeded.py run $p-$x $p 2>&1 | grep -E "detected|VIOLATION|tier=" | cut -c1-200
git -C /repo status --short | head -2
