#!/usr/bin/env python3
"""Regenerates MANIFEST.json from props.json (claimed checks) + the fixed property list (not_applicable for the rest)."""
import json, subprocess
props = json.load(open('props.json'))
ids = [json.loads(l)['id'] for l in open('properties.jsonl')]
hooks_commits = subprocess.run(['git', '-C', '/repo', 'log', '--format=%H %s', '--grep=verif hook'], capture_output=True, text=True).stdout.strip().split('\n')
checks = []
na = []
for i in ids:
    if i in props and props[i].get('claimed', True):
        p = props[i]
        checks.append({
            'property_id': i,
            'quick_cmd': './check %s --tier quick' % i,
            'thorough_cmd': './check %s --tier thorough' % i,
            'evidence_file': '/verif/evidence/%s.json' % i,
            'replay_cmd_template': './check %s --replay {path}' % i,
            'engine': 'lean4-proof+correspondence',
            'level_claimed': {'category': 'proof', 'text': p.get('level_text', ''), 'design_ref': p.get('design_ref', 'DESIGN.md §5 ' + i)},
            'level_note': p.get('level_note', ''),
            'technique': p.get('technique', 'Lean 4 theorems about a hand-written model + bit-exact model/implementation correspondence run'),
        })
    else:
        na.append({'property_id': i, 'reason': (props.get(i, {}).get('na_reason') or 'not yet covered by a Lean theorem in this tree; no check is claimed for it (work in progress, see DESIGN.md §9)')})
m = {
    'version': 1,
    'setup_cmd': 'cd /verif/lean && lake build && cd /verif/harness && (test -f Cargo.lock || cp /repo/Cargo.lock .) && CARGO_NET_OFFLINE=true cargo build --release --offline',
    'hooks': {
        'guard': 'cargo feature "verif" of geometry3d (off by default)',
        'enable': 'the harness crate depends on geometry3d = { path = "/repo", features = ["verif"] }',
        'baseline_off_cmd': 'cd /repo && cargo test --workspace --no-fail-fast --offline',
        'source_commits': [c.split(' ')[0] for c in hooks_commits if c],
        'add_only': True,
    },
    'engines': [
        {'name': 'lean4-proof+correspondence', 'path': '/verif/check', 'serves_properties': [c['property_id'] for c in checks],
         'kind_free_text': 'Lean 4 theorems (lean/G3d/Props) about a hand-written executable model (lean/G3d/Model); the model is tied to /repo on every run by a bit-exact differential run (Rust harness -> Lean driver) and exact-rational oracles (oracle/*.py) search for failing inputs'},
    ],
    'checks': checks,
    'not_applicable': na,
    'notes': 'known findings: /verif/known_findings.json; design: /verif/DESIGN.md',
}
json.dump(m, open('MANIFEST.json', 'w'), indent=1)
print('claimed', [c['property_id'] for c in checks])
